#!/bin/bash
# run the seed trials for the given properties (both variants), serially
for p in "$@"; do
  for v in a b; do
    if [ -f /tmp/seed_out/$p/$v.diff ]; then
      /verif/tools/try_seed.sh /tmp/seed_out/$p $p $v quick
    fi
  done
done
