#!/usr/bin/env python3
"""development tool: (re)generate /verif/MANIFEST.json"""
import collections
import json
import os

VERIF = os.path.dirname(os.path.dirname(os.path.abspath(__file__)))
OD = collections.OrderedDict

MC = 'model_checking'
EX = 'exploration'
FE = 'fault_enumeration'

TRUST_R2 = ('Trusted: the reference lexer/parser R1/R2 (mc/refmodel/lexer.py, '
            'parser.py, written from ECMA-262 5.1 clauses 7, 11-14 and 7.9, '
            'cross-checked against acorn at development time), the neutral '
            'tree adapter (mc/refmodel/tree.py) and the small-scope '
            'hypothesis beyond the stated bounds.')

CHECKS = [
 ('C01', MC,
  'Every program of the repo test literals, of S2(k) (all derivations with <= k constructors of a generator grammar covering every statement/expression form; k=2 quick, k=3 chains thorough) and of the adjacent-leaf product, times the indentation strings, is pretty-printed by the real printer; the output is read back by the implementation AND by an independent ES5 reference parser run in lock-step (tree equality), and printed again (byte fixpoint).',
  TRUST_R2, 'bounded exhaustive derivation enumeration (E2) with reference parser in lock-step', '3 C01'),
 ('C02', MC,
  'Same program spaces with the emphasis on the complete (slot x left leaf spelling x right leaf spelling) product, times drop_semi off/on; the minified text is read back by the implementation and by the reference parser and compared modulo exactly the two normalisations the property grants; every emitted fragment must be exactly one reference token.',
  TRUST_R2, 'bounded exhaustive derivation / adjacent-leaf enumeration (E2) with reference parser in lock-step', '3 C02'),
 ('C03', MC,
  'Breadth-first exploration of the prefix trie of lexeme strings (general 48-lexeme alphabet to depth 3/4, expression and statement sub-alphabets to depth 4/5), pruned only where both parsers call a prefix dead, plus the repo test literals, all S2(k) derivations and all their single-lexeme mutations; every text is parsed by the implementation and by the reference parser and verdict and tree are compared.',
  TRUST_R2, 'explicit-state BFS over the lexeme prefix trie (E1) + derivation/mutation enumeration (E2/E3), reference parser in lock-step', '3 C03'),
 ('C04', MC,
  'Prefix-trie BFS over the ASI alphabet (terminator-sensitive tokens, line breaks, comment kinds); every S2 program times subsets of its statement terminators times layout kinds put in their place; restricted-production templates times layouts; judged against a reference parser implementing 7.9.1 literally.',
  TRUST_R2, 'explicit-state BFS (E1) + exhaustive terminator-subset x layout enumeration (E2), reference parser in lock-step', '3 C04'),
 ('C05', MC,
  'For every viable prefix of the lexeme trie (every grammatical position reachable in n lexemes), every construct the property names, and every lexeme boundary of the S2 programs: times gap layout times slash tail; the reference parser\'s context-aware scanner fixes the goal symbol of each slash and verdict/tree are compared.',
  TRUST_R2, 'explicit-state BFS over viable prefixes (E1) x gap x tail product, reference parser in lock-step', '3 C05'),
 ('C06', EX,
  'Every string over one representative per lexical character class up to a length bound (49 symbols to 3/4, cores to 4-7), every sequence of up to 2-3 catalogue lexemes with each separator, and the repo test literals are lexed with comments yielded; the conservation, ordering, longest-match, keyword and line/column invariants are checked on every token against the reference definitions of white space and line terminators.',
  'Trusted: R1 definitions of white space / line terminators / line counting; representatives stand for their class.',
  'bounded exhaustive string enumeration with intrinsic invariants', '3 C06'),
 ('C07', MC,
  'All binding structures in a small scope: every scope tree with <= 3 (thorough 4) scopes x scope kind x declaration profile x reference profile (declared names meeting the first generated names as free and as declared names), the generated-name boundary family, and S2 programs, times printer configurations; an independent ES5 scope resolver is run on the un-obfuscated and the obfuscated output and the binding partitions are compared.',
  TRUST_R2 + ' Plus the scope resolver R4 (mc/refmodel/scope.py).',
  'bounded exhaustive binding-structure enumeration (E2) with reference scope resolver', '3 C07'),
 ('C08', MC,
  'Every S2 program x layout (uniform separators, every gap pushed to a new line / behind a comment in turn, CRLF, U+2028, multi-line tokens, comments captured) x printer; every explicitly positioned fragment is compared with the reference token at that source position; two-source streams check attribution.',
  TRUST_R2, 'bounded exhaustive derivation x layout enumeration (E2), reference lexer/parser as position oracle', '3 C08'),
 ('C09', MC,
  'All synthetic fragment sequences up to length 3/4 over a fragment alphabet (texts with every line-break form x position kinds x name x source) and the streams of the real printers on a program list, with normalisation on and off; the encoded map is decoded by an independent Source Map V3 decoder and compared with independently tracked generated positions.',
  'Trusted: reference decoder mc/refmodel/sourcemap.py; the well-formedness rule for synthetic fragments stated in the evidence.',
  'bounded exhaustive fragment-sequence enumeration (E7) with reference decoder', '3 C09'),
 ('C10', EX,
  'Every integer of a symmetric range, every 5-bit group boundary up to hundreds of bits, all short lists, all small mappings structures and every canonical VLQ string up to a length bound, each through the real codec and an independent codec written from the Source Map V3 text.',
  'Trusted: mc/refmodel/sourcemap.py; values beyond the enumerated range are represented by the boundary family.',
  'bounded exhaustive value enumeration (E8) against a reference codec', '3 C10'),
 ('C11', MC,
  'Every S2 program x layout; the implementation tree and the reference tree (with spans and own-token offsets) are walked in parallel: offset/line/column consistency under reference line counting, anchor on the node\'s first or own token, every token-map entry on its text.',
  TRUST_R2, 'bounded exhaustive derivation x layout enumeration (E2), parallel walk with the reference tree', '3 C11'),
 ('C12', MC,
  'Every string over the character-class representatives up to the length bounds, every truncation and single-character corruption of the S2 programs, every trie prefix (dead or viable) alone and followed by each lexically catastrophic lexeme, every code point (BMP quick, all 1,114,112 thorough), through parse() and bare lexer iteration under a CPU-time watchdog; outcome must be a tree or ECMASyntaxError and every quoted text must sit at its quoted position.',
  'Trusted: reference line counting; termination is claimed only for the explored inputs.',
  'bounded exhaustive string / mutation enumeration (E1/E3) with exception-type and position oracle', '3 C12'),
 ('C13', MC,
  'Every S2 program x every gap x comment kind (single and doubled): parsed with and without capture, attached comments checked against the source, the pretty-printed commented tree read back by the reference parser and by the implementation with capture.',
  TRUST_R2, 'bounded exhaustive derivation x gap x comment-kind enumeration (E2), reference parser as conforming reader', '3 C13'),
 ('C14', MC,
  'All histories of <= 2 (thorough 3) perturbing print calls (printer object x tree x mode: completed, abandoned early, abandoned midway, raising) followed by one probing call, on printer objects created once per history; every completed call is compared with a fresh printer on a freshly parsed tree, tree fingerprints (reflection incl. positions) are compared after every call, shortcuts are compared with the explicit composition; each worker-level signature is confirmed in a fresh process.',
  'Trusted: fingerprint by attribute reflection captures the tree state; abandoned generators are closed at once.',
  'explicit-state history exploration (E4) with fresh-process baseline', '3 C14'),
 ('C15', MC,
  'All sequences of <= 3 (thorough 4) parse calls over a pool of valid/invalid texts x comment flag, compared with the fresh-process result of the same call; all two-thread (thorough three-thread) interleavings at token granularity and all line-granularity schedules with <= 1 pre-emption under a baton scheduler, each thread compared with its sequential result.',
  'Trusted: scheduling points at Lexer._token (and line events); unsynchronised access below that granularity is not modelled.',
  'explicit-state history exploration (E4) + stateless schedule exploration with preemption bound (E5)', '3 C15'),
 ('C16', EX,
  'Every tree the parser builds for the repo test literals and S2(k), with and without comment capture: the node set found by recursive attribute reflection is compared with Walker.walk / filter / extract.',
  'Trusted: reflection over vars() defines "every node stored in any attribute".',
  'bounded exhaustive tree enumeration (E2) with reflection oracle', '3 C16'),
 ('C17', EX,
  'Table configurations {generated optimisation modules, in-memory tables with optimisation off, modules regenerated by the optimize helpers from clean and over planted stale modules} x inputs (repo test literals, all lexeme strings up to length 3/4, all short character strings): identical outcome for every input; regenerated module data equal to the clean generation.',
  'Trusted: one ply version; outcomes compared by digest across processes.',
  'exhaustive configuration x bounded input enumeration, differential oracle', '3 C17'),
 ('C18', FE,
  'Scenarios {io.read, io.write} x stream arrangements x programs; a fault-free run numbers the call sites of every instrumented operation, then every single fault (thorough: every ordered pair) is armed in turn; closing, propagation, re-labelling, output text and map link are judged.',
  'Trusted: in-memory stream doubles; the lower-level source-map API as reference for the map content.',
  'exhaustive single / pair fault enumeration (E6)', '3 C18'),
 ('C19', EX,
  'All JSON values up to nesting depth 3/4 with container size <= 2 over an atom catalogue of ~40 spellings x fold_ops x binding form, compared with json.loads including types.',
  'Trusted: CPython json.loads as the value oracle.',
  'bounded exhaustive value enumeration (E8) against json.loads', '3 C19'),
 ('C20', MC,
  'Every repo test literal, S2(2) program and every chain of 3 (thorough 4) nested body-carrying constructors x indentation strings: the pretty output is parsed by the reference parser and every line that starts a token must begin with indent x depth.',
  TRUST_R2 + ' Plus the depth calculator R6 in mc/checks/printers.py.',
  'bounded exhaustive derivation enumeration (E2) with reference depth calculator', '3 C20'),
]


def main():
    checks = []
    for pid, cat, text, note, tech, ref in CHECKS:
        checks.append(OD([
            ('property_id', pid),
            ('quick_cmd', '/venv/bin/python mc/run.py %s --tier quick' % pid),
            ('thorough_cmd',
             '/venv/bin/python mc/run.py %s --tier thorough' % pid),
            ('evidence_file', '/verif/evidence/%s.json' % pid),
            ('replay_cmd_template',
             '/venv/bin/python mc/run.py %s --replay {path}' % pid),
            ('engine', 'mc'),
            ('level_claimed', OD([('category', cat), ('text', text),
                                  ('design_ref', 'DESIGN.md section ' + ref)])),
            ('level_note', note),
            ('technique', tech)]))
    man = OD([
        ('version', 1),
        ('setup_cmd', '/venv/bin/python mc/run.py selftest'),
        ('hooks', OD([
            ('guard', 'CALMJS_PARSE_VERIF'),
            ('enable', 'no source hooks: every check copies /repo/src to a '
             'scratch directory, imports calmjs.parse from there and observes '
             'it from outside (run-time wrappers installed by the harness)'),
            ('baseline_off_cmd', 'cd /repo && /venv/bin/python -m pytest -ra '
             '-q -p no:cacheprovider --timeout=900 '
             '--continue-on-collection-errors'),
            ('source_commits', []),
            ('add_only', True)])),
        ('engines', [OD([
            ('name', 'mc'), ('path', '/verif/mc'),
            ('serves_properties', [c[0] for c in CHECKS]),
            ('kind_free_text',
             'hand-written bounded exhaustive explorers (prefix-trie BFS, '
             'derivation / mutation enumerators, history, schedule and fault '
             'explorers) driving the real code against Python reference '
             'models (ES5 lexer/parser, scope resolver, source-map decoder)')
        ])]),
        ('checks', checks),
        ('notes', 'See DESIGN.md.  Genuine defects repaired: `fix:` commits '
         'in /repo (listed as "fixed" in known_findings.json); defects '
         'recorded but not repaired: "known" entries there.'),
        ('not_applicable', []),
    ])
    with open(os.path.join(VERIF, 'MANIFEST.json'), 'w') as fd:
        json.dump(man, fd, indent=1)
        fd.write('\n')
    print('MANIFEST.json written with %d checks' % len(checks))


if __name__ == '__main__':
    main()
