#!/bin/bash
# round-4 seeds (ids Cxx-r4a / Cxx-r4b):  tools/seed_wave4.sh C01 C02 ...   or  C01:a
for arg in "$@"; do
  p=${arg%%:*}; vs="a b"; [ "$arg" != "$p" ] && vs=${arg##*:}
  for v in $vs; do
    if [ -f /tmp/seed_out4/$p/$v.diff ]; then
      /verif/tools/try_seed.sh /tmp/seed_out4/$p $p $v quick
      sed -i "\$ s/^$p$v /${p}-r4$v /" /verif/.seedruns/summary
      for f in /verif/.seedruns/$p$v.*; do mv "$f" "${f/$p$v./$p-r4$v.}"; done
    fi
  done
done
