#!/bin/bash
# development helper: run checks and keep their signature dumps
# usage: tools/harvest.sh <tier> C01 C02 ...
tier=$1; shift
mkdir -p /verif/.harvest
cd /verif
for c in "$@"; do
  /usr/bin/time -f "$c $tier wall=%es" /venv/bin/python mc/run.py $c --tier $tier --dump-signatures > .harvest/$c.$tier.out 2> .harvest/$c.$tier.err
  echo "$c $tier exit=$? $(tail -1 .harvest/$c.$tier.err)" >> .harvest/log
done
