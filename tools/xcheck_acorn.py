#!/usr/bin/env python3
"""
Development-only: compare the reference parser R2 with acorn (ecmaVersion 5)
on a list of texts (default: every witness text of the harvested signature
dumps).  Not used by any registered check (node is not in the brief's tool
list).  Early-error messages acorn reports beyond the grammar are filtered.
"""
import glob, json, os, subprocess, sys
VERIF = os.path.dirname(os.path.dirname(os.path.abspath(__file__)))
sys.path.insert(0, VERIF)
from mc.refmodel import parser as R2

NODE = sorted(glob.glob('/root/.nvm/versions/node/*/bin/node'))[-1]
EARLY = ('Assigning to rvalue', 'Unsyntactic', 'Invalid regular expression',
         "'return' outside", 'Label ', 'Deleting local', 'Redefinition',
         'Invalid left-hand side', 'Binding ', 'Octal', 'Invalid number',
         'Identifier directly after number',
         'for-in loop variable declaration may not have an initializer')


def texts_from_dumps():
    out = []
    for p in sorted(glob.glob(os.path.join(VERIF, '.harvest', '*.out'))):
        for line in open(p, encoding='utf-8'):
            if line.startswith('SIG\t'):
                w = json.loads(line.split('\t')[3])
                for k in ('text',):
                    if isinstance(w.get(k), str):
                        out.append(w[k])
    return sorted(set(out))


def kinds_r2(r):
    m = {'ExprStatement': 'ExpressionStatement', 'VarStatement':
         'VariableDeclaration', 'FuncDecl': 'FunctionDeclaration',
         'If': 'IfStatement', 'Block': 'BlockStatement', 'EmptyStatement':
         'EmptyStatement', 'Return': 'ReturnStatement', 'Break':
         'BreakStatement', 'Continue': 'ContinueStatement', 'Throw':
         'ThrowStatement', 'Try': 'TryStatement', 'Switch':
         'SwitchStatement', 'While': 'WhileStatement', 'DoWhile':
         'DoWhileStatement', 'For': 'ForStatement', 'ForIn':
         'ForInStatement', 'With': 'WithStatement', 'Label':
         'LabeledStatement', 'Debugger': 'DebuggerStatement'}
    return [m.get(s.kind, s.kind) for s in r.tree.get('children')]


def main():
    if len(sys.argv) > 1:
        texts = [l.rstrip('\n') for l in open(sys.argv[1], encoding='utf-8')]
        texts = [json.loads(t) for t in texts]
    else:
        texts = texts_from_dumps()
    p = subprocess.run([NODE, '--expose-internals', os.path.join(
        VERIF, 'tools', 'xcheck_acorn.js')], input='\n'.join(
            json.dumps(t) for t in texts), capture_output=True, text=True)
    if p.returncode:
        print(p.stderr[:2000])
        return 2
    res = [json.loads(l) for l in p.stdout.split('\n') if l]
    assert len(res) == len(texts), (len(res), len(texts))
    bad = same = skipped = 0
    for t, a in zip(texts, res):
        r = R2.parse(t)
        if r.verdict == 'abstain':
            skipped += 1
            continue
        if not a['ok'] and any(m in a['msg'] for m in EARLY):
            skipped += 1
            continue
        if a['ok'] != (r.verdict == 'accept'):
            bad += 1
            print('DISAGREE %r acorn=%s r2=%s %s' % (
                t, a, r.verdict, getattr(r, 'reason', '')))
        elif a['ok'] and a['kinds'] != kinds_r2(r):
            bad += 1
            print('SHAPE %r acorn=%s r2=%s' % (t, a['kinds'], kinds_r2(r)))
        else:
            same += 1
    print('texts=%d agree=%d disagree=%d skipped=%d' % (
        len(texts), same, bad, skipped))
    return 1 if bad else 0


if __name__ == '__main__':
    sys.exit(main())
