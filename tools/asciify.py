"""development helper: replace literal non-ASCII characters in mc/*.py by
\\uXXXX escapes (they only occur inside string literals)."""
import re, sys, os
for root, d, files in os.walk(sys.argv[1] if len(sys.argv) > 1 else 'mc'):
    for f in files:
        if not f.endswith('.py'):
            continue
        p = os.path.join(root, f)
        s = open(p, encoding='utf-8').read()
        def esc(m):
            o = ord(m.group(0))
            return '\\u%04x' % o if o < 0x10000 else '\\U%08x' % o
        t = re.sub(r'[^\x00-\x7f]', esc, s)
        if t != s:
            open(p, 'w', encoding='utf-8').write(t)
            print('asciified', p)
