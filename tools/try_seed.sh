#!/bin/bash
# development helper: evaluate one seeded change
#   tools/try_seed.sh <dir-with-diffs> <Cxx> <a|b> [tier] [other checks...]
# 1. demo exits 0 on the pristine tree, 2. apply the patch to /repo,
# 3. repo test-suite passes, 4. demo exits 1, 5. run the check(s), 6. revert.
dir=$1; prop=$2; v=$3; tier=${4:-quick}; shift 4
out=/verif/.seedruns; mkdir -p $out
cd /verif
git -C /repo diff --quiet || { echo "/repo not clean"; exit 9; }
/opt/seedkit/pysrc.py /repo $dir/${v}_demo.py > $out/$prop$v.demo0 2>&1; d0=$?
git -C /repo apply $dir/$v.diff || { echo "patch does not apply"; exit 9; }
/venv/bin/python tools/run_repo_tests.py > $out/$prop$v.tests 2>&1; t=$?
/opt/seedkit/pysrc.py /repo $dir/${v}_demo.py > $out/$prop$v.demo1 2>&1; d1=$?
res=""
for c in $prop "$@"; do
  /venv/bin/python mc/run.py $c --tier $tier > $out/$prop$v.$c.$tier.out 2>&1; rc=$?
  nv=$(grep -c '^VIOLATION' $out/$prop$v.$c.$tier.out)
  res="$res $c:exit=$rc,violations=$nv"
done
git -C /repo checkout -- .
echo "$prop$v demo_without=$d0 tests=$t demo_with=$d1 $res" | tee -a $out/summary
