#!/usr/bin/env python3
"""development tool: markdown table of the measured size of every tier from
the summary lines of the harvested runs (.harvest/*.out)"""
import glob, os, re
VERIF = os.path.dirname(os.path.dirname(os.path.abspath(__file__)))
rows = {}
for p in sorted(glob.glob(os.path.join(VERIF, '.harvest', 'C*.out'))):
    name = os.path.basename(p)
    prop, tier = name.split('.')[0], name.split('.')[1]
    last = None
    for line in open(p, encoding='utf-8'):
        if line.startswith(prop + ' tier='):
            last = line.strip()
    if last:
        m = dict(re.findall(r'(\w+)=([\w.]+)', last))
        rows[(prop, tier)] = m
print('| property | tier | states | transitions | traces vs. impl | non-trivial | known findings | wall (16 cores) |')
print('|---|---|---|---|---|---|---|---|')
for (prop, tier), m in sorted(rows.items()):
    print('| %s | %s | %s | %s | %s | %s | %s | %s |' % (
        prop, tier, m.get('states'), m.get('transitions'), m.get('traces'),
        m.get('nontrivial'), m.get('known'), m.get('wall')))
