#!/usr/bin/env python3
"""
development tool: copy a confirmed seeded change into /verif/seeded/<id>/
  keep_seed.py <Cxx> <a|b> "<caught-by text>"
Reads /tmp/seed_out/<Cxx>/{v.diff, v_demo.py, meta.json} and
/verif/.seedruns/summary.
"""
import json, os, shutil, sys

prop, v, caught = sys.argv[1], sys.argv[2], sys.argv[3]
rnd = sys.argv[4] if len(sys.argv) > 4 else '1'
src = {"1": "/tmp/seed_out/%s", "2": "/tmp/seed_out2/%s", "4": "/tmp/seed_out4/%s",
       '3': '/tmp/seed_out3/%s'}[rnd] % prop
sid = '%s%s' % (prop, v) if rnd == '1' else '%s-r%s%s' % (prop, rnd, v)
dst = '/verif/seeded/%s' % sid
os.makedirs(dst, exist_ok=True)
shutil.copy(os.path.join(src, '%s.diff' % v), os.path.join(dst, 'patch.diff'))
shutil.copy(os.path.join(src, '%s_demo.py' % v), os.path.join(dst, 'demo.py'))
meta = {}
try:
    meta = json.load(open(os.path.join(src, 'meta.json'))).get(v, {})
except Exception as e:
    meta = {'note': 'meta.json of the seeding agent unreadable: %r' % e}
runs = []
for f in ('/verif/.seedruns/summary.round1-first', '/verif/.seedruns/summary'):
    if os.path.exists(f):
        runs += [l.strip() for l in open(f) if l.startswith(sid + ' ')]
out = {
    'id': sid,
    'breaks_property': prop,
    'summary': meta.get('summary'),
    'files': meta.get('files'),
    'needs_to_manifest': meta.get('needs'),
    'round': int(rnd),
    'origin': 'written by an independent sub-agent that saw only the '
              'property text and a private worktree of /repo (nothing from '
              '/verif)',
    'what_was_run': [
        'demo on the pristine tree: /opt/seedkit/pysrc.py /repo demo.py '
        '-> exit 0',
        'git -C /repo apply patch.diff',
        'repository test-suite against the patched working tree '
        '(tools/run_repo_tests.py) -> 797 passed',
        'demo with the patch -> exit 1',
        '/venv/bin/python mc/run.py %s --tier quick' % prop,
        'git -C /repo checkout -- .'],
    'recorded_runs': runs,
    'detection': caught,
}
json.dump(out, open(os.path.join(dst, 'meta.json'), 'w'), indent=1)
print('kept', dst)
