# -*- coding: utf-8 -*-
"""
Hand-written triage of every violation signature observed on the unchanged
tree.  FINDINGS: one entry per root cause (a genuine defect of calmjs.parse,
reproduced against the real code with the witness given).  RULES: ordered
(finding id, regular expression over the signature) used ONLY by
tools/mkfindings.py to sort harvested signatures into findings; the checks
match the resulting explicit signature lists exactly.
"""

FIXED = [
    ('FX-lsps', 'C06', '9325718',
     'U+2028/U+2029 between tokens were skipped as white space: line/column '
     'of later tokens wrong (witness "\\u2028!")'),
    ('FX-lsps-c11', 'C11', '9325718',
     'node and token-map line/column wrong after U+2028/U+2029'),
    ('FX-lsps-c04', 'C04', '9325718',
     'U+2028/U+2029 never triggered automatic semicolon insertion '
     '(witness "a \\u2028 b")'),
    ('FX-lsps-c12', 'C12', '9325718',
     'syntax-error positions wrong after U+2028/U+2029'),
    ('FX-perror-none', 'C12', '401180a',
     'AttributeError from Parser.p_error for "/" or "/*" as first token'),
    ('FX-broken-string', 'C12', '5ec9954',
     "IndexError / KeyError from broken_string_token_handler for 'abc\\ "
     "(end of input) and '\\8'"),
    ('FX-token-none', 'C12', '3740132',
     'AttributeError from Lexer._token for input ending in NBSP + space'),
    ('FX-indent-empty', 'C20', 'b01fa02',
     "pretty_print(tree, indent_str='') indented with two spaces"),
    ('FX-with-regex', 'C05', 'fe0f9fb',
     'with (a) /re/ rejected: slash after the header read as division'),
    ('FX-asi-comments', 'C04', '4f618e2',
     'a comment between the line break and the next token, a multi-line '
     'comment holding the line break, and a comment between '
     'return/break/continue/throw and the line break all disabled ASI'),
    ('FX-asi-comments-c03', 'C03', '4f618e2',
     '"a /*\\n*/ b" rejected, "throw /*\\n*/ a" accepted'),
    ('FX-asi-comments-c13', 'C13', '4f618e2',
     'comments before an ASI point changed acceptance'),
    ('FX-slash-slash', 'C02', '0ba2e8d',
     '"a / /re/" minified to "a//re/" (line comment)'),
    ('FX-while-body', 'C02', '313deee',
     '"while(a);" with drop_semi minified to "while(a)"'),
    ('FX-nobf-operands', 'C03', '84d41a5',
     '"a && {}" / "a | {b: 1}" rejected as expression statements'),
    ('FX-noin-family', 'C03', '380b4e4',
     '"for (var v = a == b in c)" rejected, "for (a == b in c;;)" accepted, '
     '"for (a ? b in c : d;;)" rejected'),
    ('FX-regex-newline', 'C03', 'f8160ee',
     'a regular expression literal could span a line terminator '
     '("/ \\n /")'),
    ('FX-regex-newline-c04', 'C04', 'f8160ee',
     'a regular expression literal could span a line terminator'),
    ('FX-keyword-property-c03', 'C03', '9979704',
     '"a.if / b" rejected (keyword property name then slash)'),
    ('FX-keyword-property-c04', 'C04', '9979704',
     '"a.return \\n [0]" split by an inserted semicolon; "a.if \\n /r/" '
     'accepted'),
    ('FX-keyword-property-c05', 'C05', '9979704',
     '"a.if / b" read the slash as a regex start; "a.if (b) / c" as a '
     'header'),
    ('FX-identifier-part', 'C03', '44ace81',
     '"a1\\xe9" lexed as the two identifiers "a1" and "\\xe9"'),
    ('FX-string-escapes', 'C03', '08852f6',
     "string literals with backslash-space, backslash-X, backslash-U or a "
     "backslash before a non-ASCII character rejected as unterminated"),
    ('FX-autosemi-in-message', 'C12', '8043159',
     'syntax-error message quoted the synthetic semicolon as "\';\' at 1:0" '
     '(witness "a break\\n")'),
    ('FX-string-octal-backtracking', 'C12', '5a614a4',
     'time to reject an unterminated string of octal escapes doubled with '
     'every escape (witness \'"\' + "\\\\00" * 30: minutes of CPU for 91 '
     'characters)'),
    ('FX-cjk-hangul-ranges', 'C03', '785138a',
     'CJK ideographs U+3401-4DB4, U+4E01-9FC2 and Hangul syllables '
     'U+AC01-D7A2 rejected as identifier characters (witness "\\u4e2d ;")'),
    ('FX-letter-numbers', 'C03', 'ad0be23',
     'letter numbers (category Nl, e.g. U+2163, U+3007) rejected as '
     'identifier characters (witness "\\u2163 ;")'),
    ('FX-keyword-property-c01', 'C01', '9979704',
     'pretty output "({\\n  p: a.return\\n})" rejected on re-parse'),
    ('FX-space-after-combining-mark', 'C02', 'dca0094',
     'an identifier ending in a combining mark or connector punctuation '
     'fused with a following word operator ("a\\u0301 in b" minified to '
     '"a\\u0301in b")'),
    ('FX-white-space-before-regex', 'C05', 'af659ae',
     'a regular expression literal preceded by white space other than blank '
     'or tab (NBSP, VT, FF, BOM, Zs) was read as a division ("x = \\xa0/ab/" '
     'rejected)'),
    ('FX-white-space-before-regex-c03', 'C03', 'af659ae',
     '"x = \\xa0/ab/" rejected (white space other than blank or tab in '
     'front of a regular expression literal)'),
]

FINDINGS = []
for fid, prop, commit, what in FIXED:
    FINDINGS.append({
        'id': fid, 'property': prop, 'status': 'fixed', 'commit': commit,
        'line': 'fixed: property=%s %s %s' % (prop, commit, what)})


def known(fid, prop, title, description, witness=None):
    d = {'id': fid, 'property': prop, 'status': 'known', 'title': title,
         'description': description}
    if witness is not None:
        d['witness'] = witness
    FINDINGS.append(d)


RULES = []


def rule(fid, pattern):
    RULES.append((fid, pattern))


# ---------------------------------------------------------------- C01
known('K-C01-number-dot', 'C01',
      'integer literal followed by a property access prints as `1.p`',
      'DotAccessor prints node, ".", identifier with no layout in between; '
      'for a decimal integer literal the dot is lexed as part of the number, '
      'so the output `1.p` is rejected by every ES5 parser including this '
      'one.', {'text': '1 . p ;', 'indent': '  '})
rule('K-C01-number-dot', r'^C01\|.*identifier-after-number')

# ---------------------------------------------------------------- C02
known('K-C02-number-dot', 'C02',
      'integer literal followed by a property access minifies to `1.p`',
      'same root cause as K-C01-number-dot', {'text': '1 . p ;',
                                              'drop_semi': False})
rule('K-C02-number-dot', r'^C02\|.*identifier-after-number')
known('K-C02-regex-then-word', 'C02',
      'regex literal followed by `in`/`instanceof` fuses with its flags',
      'required_space only knows \\w\\w pairs; `/=/ in a` minifies to '
      '`/=/in a`, where `in` is read as regular-expression flags.',
      {'text': '/=/ in $ ;', 'drop_semi': False})
known('K-C02-semicolon-before-block', 'C02',
      'drop_semi removes the separator before an empty block',
      'the optional-semicolon handler emits `;` only when a *text* fragment '
      'follows; braces are produced by layout handlers, so `a;{}` becomes '
      '`a{}` and `return;{}` becomes `return{}`.',
      {'text': 'a ; { }', 'drop_semi': True})
rule('K-C02-regex-then-word',
     r'^C02\|(keep|drop)\|.*(REGEX (none|ws) |lex:unterminated-regex|'
     r'\[ none \]|/ none (;|EOF)|BinOp != FunctionCall|'
     r'fragment-is-not-one-token\|REGEX|ref-also-rejects:unexpected|'
     r'ref-also-rejects:expected (\)|, or \]|:|\]|\})|'
     r'BinOp:left kind Regex != BinOp)')
rule('K-C02-regex-then-word',
     r'^C02\|keep\|impl-rejects-output\|Unexpected\|ref-also-rejects:'
     r'expected ;')
rule('K-C02-semicolon-before-block',
     r'^C02\|drop\|.*(expected ;\|.* none \{|ref-also-rejects:expected ;|'
     r'ES5Program:children length)')

# ---------------------------------------------------------------- C03
known('K-C03-postfix-after-newline', 'C03',
      '`a \\n ++ b` is not read as `a; ++b`',
      'postfix ++/-- are restricted productions: a line terminator before '
      'the operator ends the statement.  The grammar accepts the postfix '
      'form regardless, so `a\\n++b` is rejected and `a\\n++\\nb` is read as '
      '`a++; b`.', {'text': 'a \n ++ b'})
rule('K-C03-postfix-after-newline', r'^C03\|.*(\+\+|--)( |$)')
rule('K-C03-postfix-after-newline', r'^C03\|tree-differs\|.*PostfixExpr')
known('K-C03-funcdecl-then-expression', 'C03',
      'a function declaration followed by an operator is read as a function '
      'expression statement',
      'member_expr_nobf contains function_expr, so `function f(){} /r/` or '
      '`function f(){}()` continue the "expression"; only a bare function '
      'expression statement is rejected afterwards.',
      {'text': 'function f ( ) { } /r/ ;'})
rule('K-C03-funcdecl-then-expression', r'^C03\|impl-rejects\|.*REGEX')
known('K-C03-accessor-name-forms', 'C03',
      'getters/setters: string or numeric names, or anything but one blank '
      'between get/set and the name, are rejected; `get`/`set` before an '
      'identifier outside object literals is mis-tokenised',
      'GETPROP/SETPROP are produced by a look-ahead regular expression '
      '`get(?=\\s<identifier>)`.', {'text': "( { get 'p' ( ) { } } ) ;"})
rule('K-C03-accessor-name-forms', r'^C03\|impl-rejects\|Unexpected\|'
     r'((get|set) |.* ws (get|set)$)')
known('K-C03-restricted-keyword-then-semicolon', 'C03',
      '`break \\n ;` yields an extra empty statement',
      'the lexer supplies a semicolon at the line terminator after '
      'break/continue/return even when the next token is the explicit `;`, '
      'which then becomes an EmptyStatement.', {'text': 'break \n ;'})
rule('K-C03-restricted-keyword-then-semicolon',
     r'^C03\|tree-differs\|ES5Program:children length N != N first='
     r'EmptyStatement/END')

# ---------------------------------------------------------------- C04
known('K-C04-postfix-after-newline', 'C04',
      'no semicolon is inserted before a postfix operator on a new line',
      'same root cause as K-C03-postfix-after-newline',
      {'text': 'a \n ++ b ;'})
rule('K-C04-postfix-after-newline', r'^C04\|.*features=.*lt-before-incdec')
known('K-C04-restricted-keyword-then-semicolon', 'C04',
      '`break \\n ;` yields an extra empty statement',
      'same root cause as K-C03-restricted-keyword-then-semicolon',
      {'text': 'break \n ;'})
rule('K-C04-restricted-keyword-then-semicolon',
     r'^C04\|tree-differs\|.*length N != N first=EmptyStatement/.*'
     r'features=.*restricted-keyword-lt-semicolon')
known('K-C04-regex-after-inserted-semicolon', 'C04',
      'a regex literal cannot start the statement after an inserted '
      'semicolon',
      '`var v \\n /r/;`: the slash is lexed as a division (previous token is '
      'an identifier) before the parser inserts the semicolon; the '
      're-lexing fallback only exists after `}` `++` `--`.',
      {'text': 'var v \n/r/ ; '})
rule('K-C04-regex-after-inserted-semicolon', r'^C04\|impl-rejects\|.*'
     r'next=SLASH\|expected=insert')

# ---------------------------------------------------------------- C08
known('K-C08-layout-fragments-without-source', 'C08',
      'positioned `;` `{` `}` fragments carry no source and are attributed '
      'to the previous file',
      'the layout handlers for braces and semicolons emit '
      'StreamFragment(text, line, col, None, None); the source-map writer '
      'treats None as "same as before", so a program that BEGINS with such '
      'a token is attributed to the preceding file (or to about:invalid).',
      {'two_sources': [';', '{ }'], 'printer': 'pretty'})
rule('K-C08-layout-fragments-without-source',
     r'^C08\|.*fragment-attributed-to-wrong-source\|[;{}]\|explicit=False')

# ---------------------------------------------------------------- C07
known('K-C07-var-redeclares-catch-parameter', 'C07',
      'a var that re-declares the enclosing catch parameter is not hoisted',
      'CatchScope.declare drops a declaration whose name equals the catch '
      'parameter, so `function f(){ x; try{}catch(x){ var x } }` renames '
      'only the catch-local occurrences and the hoisted function-level '
      '`x` turns from bound into free.',
      {'text': 'function f(){ x; try{}catch(x){ var x = 3; } }',
       'conf': [False, False, 'minify']})
rule('K-C07-var-redeclares-catch-parameter',
     r'^C07\|binding-structure-changed\|var->(free|var)\|role=ref\|')

# ---------------------------------------------------------------- C16
known('K-C16-comments-not-walked', 'C16',
      'nodes held in the `comments` attribute are never yielded',
      'Node.__iter__ goes through children(), none of which includes '
      '`comments`; Comments nodes and their Line/BlockComment children are '
      'invisible to walk/filter/extract.',
      {'text': '/*a*/ ; /*z*/', 'with_comments': True})
rule('K-C16-comments-not-walked', r'^C16\|node-not-reached\|(AnyNode\.'
     r'comments|Comments\._children_list)\|')

# ---------------------------------------------------------------- C03 (more)
rule('K-C03-restricted-keyword-then-semicolon',
     r'^C03\|tree-differs\|.*length N != N first=EmptyStatement/')

# ---------------------------------------------------------------- C05
known('K-C05-layout-after-header', 'C05',
      'a comment or line break between the `)` of an if/for/while/with '
      'header and a regex literal makes the slash a division',
      'the header bookkeeping (token_stack) is advanced by comment and '
      'line-terminator tokens as well, so `if (a) /*c*/ /re/` and '
      '`if (a)\\n/re/` are rejected.', {'text': 'if ( a )\n/b/g'})
rule('K-C05-layout-after-header',
     r'^C05\|[^|]*\|before=\)-after-(if|for|while|with)\|')
known('K-C05-incdec-before-regex', 'C05',
      '`++`/`--` followed by a regex literal',
      'PLUSPLUS/MINUSMINUS are in TOKENS_THAT_IMPLY_DIVISON for the postfix '
      'case; as prefix operators (`++ /re/`) and after the mis-read '
      '`a\\n++` (K-C04-postfix-after-newline) the regex is not recognised.',
      {'text': 'a\n++ /b/g'})
rule('K-C05-incdec-before-regex', r'^C05\|[^|]*\|before=(\+\+|--)\|')
rule('K-C05-incdec-before-regex', r'^C05\|impl-rejects\|before=ID\|'
     r'gap=[A-Za-z-]*\|tail=div\|expected=div\|Error-parsing-regular')
known('K-C05-after-closing-brace', 'C05',
      'a regex after a closing brace is only recognised for a plain `/` '
      'directly re-lexed by the parser',
      'after `}` the slash is first lexed as division and re-lexed as a '
      'regex from the parser error hook; this fails for regexes starting '
      'with `=` (`{}/=/.c`: DIVEQUAL is not re-lexed), with comments or line '
      'breaks in between in several arrangements, and after function '
      'declarations (K-C03-funcdecl-then-expression).',
      {'text': '{ } /=/.c'})
rule('K-C05-after-closing-brace', r'^C05\|[^|]*\|before=\}-after-')
known('K-C05-regex-after-inserted-semicolon', 'C05',
      'regex literal at the start of a statement after an inserted '
      'semicolon', 'same root cause as K-C04-regex-after-inserted-semicolon',
      {'text': 'var a\n/b/g'})
rule('K-C05-regex-after-inserted-semicolon',
     r'^C05\|impl-rejects\|before=(ID|get)\|.*expected=regex')
known('K-C05-restricted-keyword-then-semicolon', 'C05',
      '`return \\n ;` yields an extra empty statement',
      'same root cause as K-C03-restricted-keyword-then-semicolon',
      {'text': 'return \n ;/b/g'})
rule('K-C05-restricted-keyword-then-semicolon',
     r'^C05\|tree-differs\|before=;\|')

# ---------------------------------------------------------------- C13
known('K-C13-number-dot', 'C13',
      'integer literal followed by a property access prints as `1.p`',
      'same root cause as K-C01-number-dot',
      {'text': '1 . p ; /*c*/'})
rule('K-C13-number-dot', r'^C13\|.*identifier-after-number')
known('K-C13-comment-splits-restricted-production', 'C13',
      'a printed comment is always followed by a line break, which splits '
      'return/break/continue/throw from their operand',
      'the LineComment/BlockComment definitions end with Newline, so '
      '`return /*c*/ x` is printed as `return /*c*/\\nx`: a conforming '
      'reader (and, since the ASI repair, this parser too) inserts a '
      'semicolon after the keyword; `throw /*c*/\\nx` is a syntax error.',
      {'text': 'return /*c*/ a ;'})
rule('K-C13-comment-splits-restricted-production',
     r'^C13\|(conforming-reader-reads-different-tree|'
     r'impl-reads-different-tree)\|.*length N != N first=')
rule('K-C13-comment-splits-restricted-production',
     r'^C13\|conforming-reader-rejects-pretty-output\|(line terminator '
     r'after throw|expected ;|expected while|unexpected reserved word|'
     r'expected \(|expected function name)\|')
rule('K-C13-comment-splits-restricted-production',
     r'^C13\|impl-rejects-pretty-output\|Unexpected\|ref=(line terminator '
     r'after throw|expected ;|expected while|unexpected reserved word|'
     r'expected \(|expected function name|accept)\|')
rule('K-C13-comment-splits-restricted-production',
     r'^C13\|impl-rejects-pretty-output\|Function-statement-requires-a-name'
     r'\|ref=expected function name\|')
known('K-C13-comments-rehomed', 'C13',
      'print + re-parse moves or loses comments attached to operator-'
      'anchored and placeholder nodes',
      'comments are attached to the node whose anchor token follows them '
      '(the operator for binary / accessor / conditional / postfix / label '
      'nodes, the `:` of a property, synthesised for-clause placeholders) '
      'but are printed before the whole node, so after re-parsing they '
      'belong to a different node or are dropped.',
      {'text': 'a /*c*/ % b ;'})
rule('K-C13-comments-rehomed',
     r'^C13\|comments-not-preserved-by-print-and-reparse\|')

# ---------------------------------------------------------------- C18
known('K-C18-inline-data-url', 'C18',
      'the inline source map is not a valid base64 data URL',
      'write_sourcemap emits `data:application/json;base64;charset=utf8,'
      '<b64>`; RFC 2397 and the WHATWG fetch standard require `;base64` to '
      'be the last parameter before the comma, so standard decoders (urllib, '
      'node fetch) return the base64 text instead of the JSON.')
rule('K-C18-inline-data-url', r'^C18\|.*inline-url-not-a-base64-data-url')
known('K-C18-relative-names', 'C18',
      'with relative stream names the sourceMappingURL is not relative to '
      'the output',
      'normrelpath only rewrites when both names are absolute; for '
      '`build/out.js` and `build/out.js.map` the URL written into '
      '`build/out.js` is `build/out.js.map`, which resolves to '
      '`build/build/out.js.map`.')
rule('K-C18-relative-names',
     r'^C18\|.*url-does-not-resolve-to-map\|names=rel-(subdir|wide)')

# ---------------------------------------------------------------- C19
known('K-C19-python-literal-evaluation', 'C19',
      'string escapes that Python and JavaScript read differently',
      'LiteralEval evaluates JavaScript string text with Python literal '
      'rules: `"\\/"` keeps the backslash, a surrogate pair written as two '
      '\\u escapes stays two lone surrogates (values and keys alike).',
      {'text': 'var x = "\\/";'})
rule('K-C19-python-literal-evaluation',
     r'^C19\|value-differs\|atom=(str|key)-escape-(solidus|surrogate-pair)')


# ---------------------------------------------------------------- C03 (lexeme catalogue)
known('K-C03-identifier-escapes-and-joiners', 'C03',
      'Unicode escape sequences and ZWNJ/ZWJ in identifiers are rejected',
      'the identifier pattern has no alternative for \\uXXXX (7.6 '
      'UnicodeEscapeSequence) nor for U+200C / U+200D in IdentifierPart, so '
      '`\\u0061bc` and `a\u200d` are illegal characters.',
      {'text': '\\u0061bc ;'})
rule('K-C03-identifier-escapes-and-joiners',
     r'^C03\|impl-rejects\|Illegal-character:(backslash|joiner)\|')

# ---------------------------------------------------------------- late additions
# (signatures first seen in the thorough tiers; same root causes)
rule('K-C03-postfix-after-newline',
     r'^C03\|impl-accepts\|lex:unterminated-regex\|lexical$')
rule('K-C03-postfix-after-newline',
     r'^C03\|tree-differs\|ES5Program:children length N != N '
     r'first=ExprStatement/ExprStatement$')
rule('K-C03-funcdecl-then-expression',
     r'^C03\|impl-accepts\|unexpected (punctuator|reserved word)\|\} ws '
     r'(,|=|in)$')
rule('K-C03-accessor-name-forms',
     r'^C03\|impl-rejects\|Unexpected-end-of-input-after\|NONE start get$')
rule('K-C04-postfix-after-newline',
     r'^C04\|impl-rejects\|prev=INCDEC\|gap=ws\|next=OPERAND\|expected=none'
     r'\|features=-$')
rule('K-C05-incdec-before-regex',
     r'^C05\|tree-differs\|before=\+\|.*first=ExprStatement/ExprStatement$')
rule('K-C05-restricted-keyword-then-semicolon',
     r'^C05\|tree-differs\|before=(\+|typeof|return|this|get|STR|NUM|ID)\|'
     r'.*first=EmptyStatement/')
