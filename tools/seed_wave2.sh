#!/bin/bash
# round-2 seeds (ids C01c/C01d ... to keep them apart from round 1)
for p in "$@"; do
  for v in a b; do
    if [ -f /tmp/seed_out2/$p/$v.diff ]; then
      /verif/tools/try_seed.sh /tmp/seed_out2/$p $p $v quick
      # relabel the last summary line
      sed -i "\$ s/^$p$v /${p}-r2$v /" /verif/.seedruns/summary
    fi
  done
done
