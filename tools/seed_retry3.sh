#!/bin/bash
# round-3 seeds, single variants: tools/seed_retry3.sh C18:a C06:b ...
for pv in "$@"; do
  p=${pv%%:*}; v=${pv##*:}
  /verif/tools/try_seed.sh /tmp/seed_out3/$p $p $v quick
  sed -i "\$ s/^$p$v /${p}-r3$v /" /verif/.seedruns/summary
  for f in /verif/.seedruns/$p$v.*; do mv "$f" "${f/$p$v./$p-r3$v.}"; done
done
