#!/venv/bin/python
"""
Run the repository's own test-suite against a scratch copy of <src_root>
(default /repo/src), i.e. against the working tree rather than the copy
installed in site-packages.   usage: run_repo_tests.py [src_root] [pytest args]
"""
import os
import sys

sys.path.insert(0, os.path.dirname(os.path.dirname(os.path.abspath(__file__))))
if len(sys.argv) > 1 and os.path.isdir(sys.argv[1]):
    os.environ['VERIF_SRC'] = sys.argv[1]
    extra = sys.argv[2:]
else:
    extra = sys.argv[1:]
from mc import boot
boot.boot()
import pytest
import calmjs.parse
rc = pytest.main(['--pyargs', 'calmjs.parse.tests', '-q', '-p',
                  'no:cacheprovider', '-x', '--no-header'] + extra)
print('calmjs.parse under test:', calmjs.parse.__file__)
boot.cleanup()
sys.exit(int(rc))
