#!/bin/bash
# round-3 seeds (ids Cxx-r3a / Cxx-r3b)
for p in "$@"; do
  for v in a b; do
    if [ -f /tmp/seed_out3/$p/$v.diff ]; then
      /verif/tools/try_seed.sh /tmp/seed_out3/$p $p $v quick
      sed -i "\$ s/^$p$v /${p}-r3$v /" /verif/.seedruns/summary
      for f in /verif/.seedruns/$p$v.*; do mv "$f" "${f/$p$v./$p-r3$v.}"; done
    fi
  done
done
