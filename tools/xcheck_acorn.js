// development-only cross-check of the reference parser against acorn (ES5)
// usage: node --expose-internals xcheck_acorn.js < texts.jsonl > verdicts.jsonl
const acorn = require('internal/deps/acorn/acorn/dist/acorn');
const lines = require('fs').readFileSync(0, 'utf8').split('\n').filter(Boolean);
function shape(n) {
  if (Array.isArray(n)) return n.map(shape);
  if (n && typeof n.type === 'string') {
    const o = {t: n.type};
    for (const k of Object.keys(n)) {
      if (k === 'type' || k === 'start' || k === 'end' || k === 'raw' || k === 'regex' || k == 'value' && n.type == 'Literal') continue;
      const v = n[k];
      if (v && typeof v === 'object') o[k] = shape(v);
      else if (k === 'operator' || k === 'name' || k === 'kind' || k === 'prefix' || k === 'computed') o[k] = v;
    }
    if (n.type === 'Literal') o.raw = n.raw;
    return o;
  }
  return n;
}
for (const l of lines) {
  const text = JSON.parse(l);
  let out;
  try {
    const t = acorn.parse(text, {ecmaVersion: 5, allowReturnOutsideFunction: true});
    out = {ok: true, n: t.body.length, shape: JSON.stringify(shape(t.body)).length, kinds: t.body.map(s => s.type)};
  } catch (e) {
    out = {ok: false, msg: e.message, pos: e.pos};
  }
  console.log(JSON.stringify(out));
}
