#!/venv/bin/python
# -*- coding: utf-8 -*-
"""
CLI:  run.py <Cxx> [--tier quick|thorough] [--replay FILE]
      run.py selftest

exit 0  property held on everything explored (KNOWN-FINDING lines allowed)
exit 1  at least one unlisted violation (VIOLATION property=<id> replay=<path>)
exit 2  harness error (never prints VIOLATION)
"""
from __future__ import unicode_literals

import argparse
import importlib
import json
import os
import sys
import traceback

HERE = os.path.dirname(os.path.abspath(__file__))
VERIF = os.path.dirname(HERE)
if VERIF not in sys.path:
    sys.path.insert(0, VERIF)

LEVELS = {
    'C01': 'model_checking', 'C02': 'model_checking', 'C03': 'model_checking',
    'C04': 'model_checking', 'C05': 'model_checking', 'C06': 'exploration',
    'C07': 'model_checking', 'C08': 'model_checking', 'C09': 'model_checking',
    'C10': 'exploration', 'C11': 'model_checking', 'C12': 'model_checking',
    'C13': 'model_checking', 'C14': 'model_checking', 'C15': 'model_checking',
    'C16': 'exploration', 'C17': 'exploration', 'C18': 'fault_enumeration',
    'C19': 'exploration', 'C20': 'model_checking',
}


def reexec_with_hashseed():
    # set/dict iteration order inside the obfuscator must be reproducible
    if os.environ.get('PYTHONHASHSEED') != '0':
        env = dict(os.environ)
        env['PYTHONHASHSEED'] = '0'
        os.execve(sys.executable, [sys.executable] + sys.argv, env)


def main(argv=None):
    ap = argparse.ArgumentParser()
    ap.add_argument('prop')
    ap.add_argument('--tier', default=os.environ.get('VERIF_TIER') or 'quick',
                    choices=['quick', 'thorough'])
    ap.add_argument('--replay')
    ap.add_argument('--dump-signatures', action='store_true',
                    help='development: print every violation signature')
    args = ap.parse_args(argv)
    reexec_with_hashseed()
    try:
        seed = int(os.environ.get('VERIF_SEED') or 0)
    except ValueError:
        seed = 0

    from mc import boot
    from mc.report import Report

    if args.prop == 'selftest':
        from mc import selftest
        return selftest.main()

    prop = args.prop.upper()
    if prop not in LEVELS:
        print('unknown property %r' % prop, file=sys.stderr)
        return 2
    try:
        mod = importlib.import_module('mc.checks.%s' % prop.lower())
        if getattr(mod, 'NEEDS_BOOT', True):
            info = boot.boot(tables=getattr(mod, 'NEEDS_TABLES', True))
        else:
            info = {}
        if args.replay:
            with open(args.replay) as fd:
                payload = json.load(fd)
            res = mod.replay(payload['witness'])
            if res:
                for r in res:
                    print('REPLAY-FAILS property=%s signature=%s detail=%s' % (
                        prop, r.get('sig'), str(r.get('detail'))[:400]))
                print('VIOLATION property=%s replay=%s' % (prop, args.replay))
                return 1
            print('REPLAY-PASSES property=%s' % prop)
            return 0
        rep = Report(prop, args.tier, LEVELS[prop], seed)
        rep.cov['build'] = info
        mod.run(args.tier, rep)
        if args.dump_signatures:
            for sig in sorted(rep.bag.d):
                n, w, d = rep.bag.d[sig]
                print('SIG\t%s\t%d\t%s\t%s' % (
                    sig, n, json.dumps(w, ensure_ascii=True),
                    str(d)[:200].replace('\n', ' ')))
        if rep.harness_errors:
            for e in rep.harness_errors[:20]:
                print('HARNESS-ERROR %s' % e, file=sys.stderr)
            return 2
        # VERIF_EVIDENCE_DIR: development runs against a changed tree
        # (VERIF_SRC) must not overwrite the evidence of the real tree
        return rep.finish(
            evidence_dir=os.environ.get('VERIF_EVIDENCE_DIR') or None)
    except boot.HarnessError as e:
        print('HARNESS-ERROR %s' % e, file=sys.stderr)
        return 2
    except Exception:
        traceback.print_exc()
        print('HARNESS-ERROR unexpected exception in the machinery',
              file=sys.stderr)
        return 2
    finally:
        boot.cleanup()


if __name__ == '__main__':
    sys.exit(main())
