# -*- coding: utf-8 -*-
"""
Evidence, violation classification against known_findings.json, replay files.

A *violation record* is a dict
    {'sig': <signature string>, 'witness': <json-able case>, 'detail': <str>}
Workers aggregate records per signature with `VioBag`; the parent merges the
bags, keeps the smallest witness per signature, matches signatures *exactly*
against the committed known-findings file and prints

    KNOWN-FINDING: property=<id> <finding id> <title> witness=<...> cases=<n>
    VIOLATION property=<id> replay=<path>

Nothing is ever written to known_findings.json at run time.
"""
from __future__ import unicode_literals

import collections
import hashlib
import json
import os
import sys
import time

VERIF = os.path.dirname(os.path.dirname(os.path.abspath(__file__)))
KNOWN = os.path.join(VERIF, 'known_findings.json')


def jdump(obj):
    return json.dumps(obj, sort_keys=True, ensure_ascii=True, default=repr)


def wsize(w):
    try:
        return len(jdump(w))
    except Exception:
        return 10 ** 9


class VioBag(object):
    """signature -> [count, smallest witness, detail]"""

    def __init__(self):
        self.d = {}

    def add(self, sig, witness, detail=''):
        e = self.d.get(sig)
        if e is None:
            self.d[sig] = [1, witness, detail]
        else:
            e[0] += 1
            if (wsize(witness), jdump(witness)) < (wsize(e[1]), jdump(e[1])):
                e[1] = witness
                e[2] = detail

    def merge(self, other):
        for sig, (n, w, d) in other.d.items():
            e = self.d.get(sig)
            if e is None:
                self.d[sig] = [n, w, d]
            else:
                e[0] += n
                if (wsize(w), jdump(w)) < (wsize(e[1]), jdump(e[1])):
                    e[1] = w
                    e[2] = d

    def __len__(self):
        return len(self.d)

    def total(self):
        return sum(e[0] for e in self.d.values())


def load_known(path=KNOWN):
    if not os.path.exists(path):
        return []
    with open(path) as fd:
        data = json.load(fd)
    return data.get('findings', [])


class Report(object):

    def __init__(self, prop, tier, level, seed=0):
        self.prop = prop
        self.tier = tier
        self.level = level
        self.seed = seed
        self.t0 = time.time()
        self.cov = collections.OrderedDict()
        self.cov['states'] = 0
        self.cov['transitions'] = 0
        self.cov['traces_validated_against_impl'] = 0
        self.cov['evaluations'] = 0
        self.cov['distinct_nontrivial'] = 0
        self.cov['rule'] = ''
        self.cov['exhaustive'] = True
        self.cov['samples'] = []
        self.cov['bounds'] = {}
        self.cov['caps_hit'] = []
        self.cov['outcomes'] = {}
        self.assumptions = []
        self.bag = VioBag()
        self.harness_errors = []
        self.spaces = collections.OrderedDict()

    # -- accumulation -------------------------------------------------
    def add(self, **kw):
        for k, v in kw.items():
            self.cov[k] = self.cov.get(k, 0) + v

    def outcome(self, counter):
        o = self.cov['outcomes']
        for k, v in counter.items():
            o[k] = o.get(k, 0) + v

    def sample(self, items, limit=12):
        s = self.cov['samples']
        items = list(items)
        if not items:
            return
        # VERIF_SEED only rotates which samples are shown
        k = self.seed % len(items)
        items = items[k:] + items[:k]
        for it in items:
            if len(s) >= limit:
                break
            s.append(it)

    def space(self, name, **kw):
        self.spaces.setdefault(name, collections.OrderedDict()).update(kw)

    # -- finish -------------------------------------------------------
    def finish(self, evidence_dir=None, replay_dir=None, quiet=False):
        evidence_dir = evidence_dir or os.path.join(VERIF, 'evidence')
        replay_dir = replay_dir or os.path.join(VERIF, 'replays', self.prop)
        known = [f for f in load_known() if f.get('property') == self.prop]
        by_sig = {}
        for f in known:
            if f.get('status') != 'known':
                continue   # 'fixed' entries suppress nothing
            for s in f.get('signatures', []):
                by_sig[s] = f
        matched = collections.OrderedDict()
        unmatched = []
        for sig in sorted(self.bag.d):
            n, w, d = self.bag.d[sig]
            f = by_sig.get(sig)
            if f is not None:
                m = matched.setdefault(f['id'], {
                    'finding': f, 'cases': 0, 'signatures': 0,
                    'witness': None})
                m['cases'] += n
                m['signatures'] += 1
                if m['witness'] is None or wsize(w) < wsize(m['witness']):
                    m['witness'] = w
            else:
                unmatched.append((sig, n, w, d))
        lines = []
        for fid, m in matched.items():
            f = m['finding']
            lines.append(
                'KNOWN-FINDING: property=%s %s %s witness=%s cases=%d' % (
                    self.prop, fid, f.get('title', ''),
                    jdump(m['witness'])[:200], m['cases']))
        vio_files = []
        if unmatched:
            os.makedirs(replay_dir, exist_ok=True)
        for sig, n, w, d in unmatched:
            payload = collections.OrderedDict([
                ('property', self.prop), ('signature', sig), ('cases', n),
                ('witness', w), ('detail', d), ('tier', self.tier)])
            sha = hashlib.sha1(sig.encode('utf-8')).hexdigest()[:12]
            path = os.path.join(replay_dir, '%s.json' % sha)
            with open(path, 'w') as fd:
                json.dump(payload, fd, indent=1, sort_keys=False,
                          default=repr)
            vio_files.append(path)
            lines.append('VIOLATION property=%s replay=%s' % (self.prop, path))
            lines.append('  signature=%s cases=%d witness=%s' % (
                sig, n, jdump(w)[:300]))
            if d:
                lines.append('  detail=%s' % str(d)[:400])

        cov = self.cov
        cov['spaces'] = self.spaces
        cov['known_findings_matched'] = [
            collections.OrderedDict([
                ('id', fid), ('cases', m['cases']),
                ('signatures', m['signatures']),
                ('witness', m['witness'])])
            for fid, m in matched.items()]
        cov['violation_signatures'] = [
            collections.OrderedDict([('signature', s), ('cases', n),
                                     ('witness', w)])
            for s, n, w, d in unmatched][:50]
        if not cov['samples']:
            cov['samples'] = ['(no sample recorded)']
        ev = collections.OrderedDict([
            ('property_id', self.prop),
            ('tier', self.tier),
            ('seed', int(self.seed)),
            ('level', self.level),
            ('coverage', cov),
            ('assumptions', self.assumptions),
            ('wall_s', round(time.time() - self.t0, 3)),
            ('violations', len(unmatched)),
        ])
        os.makedirs(evidence_dir, exist_ok=True)
        with open(os.path.join(evidence_dir, '%s.json' % self.prop),
                  'w') as fd:
            json.dump(ev, fd, indent=1, default=repr)
            fd.write('\n')
        if not quiet:
            for l in lines:
                print(l)
            print('%s tier=%s states=%d transitions=%d traces=%d '
                  'evaluations=%d nontrivial=%d known=%d unlisted=%d '
                  'wall=%.1fs' % (
                      self.prop, self.tier, cov['states'],
                      cov['transitions'],
                      cov['traces_validated_against_impl'],
                      cov['evaluations'], cov['distinct_nontrivial'],
                      len(matched), len(unmatched), time.time() - self.t0))
            sys.stdout.flush()
        return 1 if unmatched else 0
