# -*- coding: utf-8 -*-
"""
R5: base64-VLQ codec and Source Map V3 "mappings" decoder written from the
specification (Source Map Revision 3 Proposal, section "Base64 VLQ" and
"mappings"): sign in the least significant bit of the first group, 5-bit
groups little-endian, continuation bit 32, RFC 4648 base64 alphabet.
Independent of calmjs.parse.vlq - shares no code or tables with it.
"""
from __future__ import unicode_literals

import string

ALPHABET = (string.ascii_uppercase + string.ascii_lowercase + string.digits +
            '+/')
assert len(ALPHABET) == 64
VALUE = {}
for _i, _c in enumerate(ALPHABET):
    VALUE[_c] = _i


def encode_int(n):
    """Canonical base64 VLQ of a Python integer of any magnitude."""
    if n < 0:
        v = ((-n) * 2) + 1
    else:
        v = n * 2
    out = []
    while True:
        digit = v % 32
        v //= 32
        if v > 0:
            out.append(ALPHABET[digit + 32])
        else:
            out.append(ALPHABET[digit])
            break
    return ''.join(out)


def decode_ints(s):
    """All integers of a VLQ string; ValueError when it ends mid-number."""
    res = []
    acc = 0
    mult = 1
    pending = False
    for ch in s:
        d = VALUE[ch]
        acc += (d % 32) * mult
        mult *= 32
        pending = True
        if d < 32:
            neg = acc % 2 == 1
            mag = acc // 2
            res.append(-mag if neg else mag)
            acc = 0
            mult = 1
            pending = False
    if pending:
        raise ValueError('truncated VLQ')
    return res


def is_canonical(s):
    """s is the concatenation of canonical encodings of its values."""
    try:
        vals = decode_ints(s)
    except (ValueError, KeyError):
        return False
    return ''.join(encode_int(v) for v in vals) == s and len(s) > 0


def encode_mappings(lines):
    return ';'.join(
        ','.join(''.join(encode_int(v) for v in seg) for seg in line)
        for line in lines)


def decode_mappings_relative(s):
    return [[tuple(decode_ints(seg)) for seg in line.split(',') if seg]
            for line in s.split(';')]


def decode_mappings_absolute(s):
    """
    Decode to absolute positions as a conforming consumer does.

    Returns a list (one per generated line) of segments
        (gen_col, src_idx, src_line, src_col, name_idx)
    with None for absent fields (1-field segments carry only gen_col).
    gen_col restarts at 0 on every line; the other four fields run across
    the whole map.
    """
    out = []
    src = sline = scol = name = 0
    for line in s.split(';'):
        gcol = 0
        segs = []
        for seg in line.split(','):
            if not seg:
                continue
            f = decode_ints(seg)
            if len(f) not in (1, 4, 5):
                raise ValueError('segment with %d fields' % len(f))
            gcol += f[0]
            if len(f) == 1:
                segs.append((gcol, None, None, None, None))
                continue
            src += f[1]
            sline += f[2]
            scol += f[3]
            if len(f) == 5:
                name += f[4]
                segs.append((gcol, src, sline, scol, name))
            else:
                segs.append((gcol, src, sline, scol, None))
        out.append(segs)
    return out
