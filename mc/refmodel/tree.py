# -*- coding: utf-8 -*-
"""
R3: neutral tree + adapter from calmjs.parse nodes by attribute *reflection*
(vars()), deliberately not via children() / ReprWalker, which are themselves
under test (C16).

neutral form:  (kind, ((field, value), ...))  fields sorted by name;
value = neutral | tuple of neutrals | str | int | None
"""
from __future__ import unicode_literals

class N(tuple):
    """a neutral node: N((kind, fields)); compares equal to the plain tuple"""
    __slots__ = ()

    @property
    def kind(self):
        return self[0]

    @property
    def fields(self):
        return self[1]


def is_n(t):
    return isinstance(t, N)


POSITION_ATTRS = frozenset([
    'lexpos', 'lineno', 'colno', 'sourcepath', 'comments', '_token_map'])


def is_node(v):
    # duck-typed: every asttypes.Node has getpos/children
    return hasattr(v, 'getpos') and hasattr(v, 'children') and \
        hasattr(v, '__dict__')


def fields_of(node):
    """[(name, value)] of the structural attributes of a calmjs node."""
    out = []
    for k, v in vars(node).items():
        if k in POSITION_ATTRS:
            continue
        if k == '_children_list':
            out.append(('children', v))
        elif k.startswith('_'):
            continue
        else:
            out.append((k, v))
    out.sort(key=lambda kv: kv[0])
    return out


def from_calmjs(v):
    if is_node(v):
        return N((type(v).__name__, tuple(
            (k, from_calmjs(x)) for k, x in fields_of(v))))
    if isinstance(v, (list, tuple)):
        return tuple(from_calmjs(x) for x in v)
    return v


def strip_continuations(s):
    import re
    return re.sub(r'\\(\r\n|\n|\r|\u2028|\u2029)', '', s)


def normalize(t, strings=False, drop_empty=False):
    """
    The normalisations C02 grants: string literals compared after removing
    line continuations; stand-alone EmptyStatements that are direct members of
    a statement list ignored.
    """
    if isinstance(t, N):
        kind, fields = t
        new = []
        for k, v in fields:
            if strings and kind == 'String' and k == 'value':
                v = strip_continuations(v)
            elif drop_empty and k in ('children', 'elements') and \
                    isinstance(v, tuple) and not isinstance(v, N) and \
                    kind != 'VarStatement':
                v = tuple(normalize(x, strings, drop_empty) for x in v
                          if not (isinstance(x, N) and
                                  x[0] == 'EmptyStatement'))
            else:
                v = normalize(v, strings, drop_empty)
            new.append((k, v))
        return N((kind, tuple(new)))
    if isinstance(t, tuple):
        return tuple(normalize(x, strings, drop_empty) for x in t)
    return t


def first_diff(a, b, path='$'):
    """Human readable location of the first difference of two neutrals."""
    if a == b:
        return None
    if isinstance(a, N) != isinstance(b, N):
        return '%s: node vs non-node' % path
    if isinstance(a, N):
        if a[0] != b[0]:
            return '%s: kind %s != %s' % (path, a[0], b[0])
        da, db = dict(a[1]), dict(b[1])
        if sorted(da) != sorted(db):
            return '%s(%s): fields %s != %s' % (
                path, a[0], sorted(da), sorted(db))
        for k in sorted(da):
            d = first_diff(da[k], db[k], '%s.%s:%s' % (path, a[0], k))
            if d:
                return d
        return None
    if isinstance(a, tuple) and isinstance(b, tuple):
        if len(a) != len(b):
            def kind(x):
                return x[0] if isinstance(x, N) else type(x).__name__
            i = 0
            while i < min(len(a), len(b)) and a[i] == b[i]:
                i += 1
            ka = kind(a[i]) if i < len(a) else 'END'
            kb = kind(b[i]) if i < len(b) else 'END'
            return '%s: length %d != %d first=%s/%s' % (
                path, len(a), len(b), ka, kb)
        for i, (x, y) in enumerate(zip(a, b)):
            d = first_diff(x, y, '%s[%d]' % (path, i))
            if d:
                return d
        return None
    return '%s: %r != %r' % (path, a, b)


def diff_kind(a, b):
    """Abstracted difference for signatures: 'Parent.field:KindA!=KindB'."""
    d = first_diff(a, b)
    if d is None:
        return None
    import re
    # drop list indexes and concrete values
    loc, _, what = d.partition(': ')
    loc = re.sub(r'\[\d+\]', '[]', loc)
    tail = loc.split('.')[-1] if '.' in loc else loc
    what = re.sub(r"'[^']*'", 'V', what)
    what = re.sub(r'\d+', 'N', what)
    return '%s %s' % (tail, what)


def walk_calmjs(node):
    """All nodes reachable by attribute reflection, parents first."""
    seen = []

    def rec(v):
        if is_node(v):
            seen.append(v)
            for k, x in vars(v).items():
                if k == '_token_map':
                    continue
                rec(x)
        elif isinstance(v, (list, tuple)):
            for x in v:
                rec(x)
    rec(node)
    return seen
