# -*- coding: utf-8 -*-
"""
R4: ES5 scope resolver on R2 trees.

For every identifier occurrence (declaration site or reference; property
names excluded; labels in their own namespace) it returns the binder:
    ('free', name)                         undeclared
    ('var', scope_index, name)             var / function declaration / param
    ('fname', scope_index, name)           name of a named function expression
    ('catch', scope_index, name)           catch parameter
    ('label', function_scope_index, name)  statement label
Scopes are numbered in document order, so the numbering is comparable between
two trees of the same shape.

Rules (ECMA-262 5.1 clause 10, 12.14, 13): var and function declarations are
hoisted to the nearest enclosing function (or program), through blocks and
catch blocks; parameters belong to the function; the name of a named function
expression is bound in a scope of its own around the function; a catch
parameter is bound for its block only.
"""
from __future__ import unicode_literals

from mc.refmodel.parser import RNode

FUNCS = ('FuncDecl', 'FuncExpr', 'GetPropAssign', 'SetPropAssign')


class Scope(object):
    def __init__(self, kind, index, parent, fn_index):
        self.kind = kind          # program / function / fname / catch
        self.index = index
        self.parent = parent
        self.names = set()
        self.fn_index = fn_index  # index of the enclosing function scope


def hoisted(body):
    """names declared by var / function declarations directly in a function
    body (not inside nested functions)"""
    names = []

    def rec(v):
        if isinstance(v, RNode):
            if v.kind == 'FuncDecl':
                ident = v.get('identifier')
                if ident is not None:
                    names.append(ident.get('value'))
                return
            if v.kind in FUNCS:
                return
            if v.kind in ('VarDecl', 'VarDeclNoIn'):
                names.append(v.get('identifier').get('value'))
            for k, x in v.fields:
                rec(x)
        elif isinstance(v, (list, tuple)):
            for x in v:
                rec(x)
    rec(body)
    return names


def resolve(tree):
    """[(offset, name, binder, role)] sorted by offset"""
    occ = []
    counter = [0]

    def new_scope(kind, parent, fn_index=None):
        s = Scope(kind, counter[0], parent,
                  fn_index if fn_index is not None else counter[0])
        counter[0] += 1
        return s

    def lookup(scope, name):
        s = scope
        while s is not None:
            if name in s.names:
                kind = {'program': 'var', 'function': 'var',
                        'fname': 'fname', 'catch': 'catch'}[s.kind]
                return (kind, s.index, name)
            s = s.parent
        return ('free', name)

    def ident(node, scope, role):
        name = node.get('value')
        occ.append((node.start, name, lookup(scope, name), role))

    def label(node, scope, role):
        name = node.get('value')
        occ.append((node.start, name, ('label', scope.fn_index, name), role))

    def function(v, scope):
        kind = v.kind
        ident_node = v.get('identifier') if kind in ('FuncDecl',
                                                     'FuncExpr') else None
        inner_parent = scope
        if kind == 'FuncDecl' and ident_node is not None:
            ident(ident_node, scope, 'funcdecl-name')
        if kind == 'FuncExpr' and ident_node is not None:
            fs = new_scope('fname', scope, scope.fn_index)
            fs.names.add(ident_node.get('value'))
            ident(ident_node, fs, 'funcexpr-name')
            inner_parent = fs
        s = new_scope('function', inner_parent)
        params = []
        if kind in ('FuncDecl', 'FuncExpr'):
            params = v.get('parameters')
        elif kind == 'SetPropAssign':
            params = [v.get('parameter')]
        for p in params:
            s.names.add(p.get('value'))
        body = v.get('elements')
        for n in hoisted(body):
            s.names.add(n)
        for p in params:
            ident(p, s, 'param')
        for x in body:
            walk(x, s)

    def walk(v, scope):
        if isinstance(v, (list, tuple)):
            for x in v:
                walk(x, scope)
            return
        if not isinstance(v, RNode):
            return
        k = v.kind
        if k in FUNCS:
            if k in ('GetPropAssign', 'SetPropAssign'):
                pass    # prop_name is not an occurrence
            function(v, scope)
            return
        if k == 'Identifier':
            ident(v, scope, 'ref')
            return
        if k == 'PropIdentifier':
            return
        if k in ('VarDecl', 'VarDeclNoIn'):
            ident(v.get('identifier'), scope, 'var')
            walk(v.get('initializer'), scope)
            return
        if k == 'Label':
            label(v.get('identifier'), scope, 'label')
            walk(v.get('statement'), scope)
            return
        if k in ('Break', 'Continue'):
            if v.get('identifier') is not None:
                label(v.get('identifier'), scope, 'jump')
            return
        if k == 'Catch':
            cs = new_scope('catch', scope, scope.fn_index)
            cs.names.add(v.get('identifier').get('value'))
            ident(v.get('identifier'), cs, 'catch-param')
            walk(v.get('elements'), cs)
            return
        if k == 'DotAccessor':
            walk(v.get('node'), scope)
            return
        if k == 'Assign' and v.get('op') == ':':
            walk(v.get('right'), scope)
            return
        for name, x in v.fields:
            walk(x, scope)

    prog = new_scope('program', None)
    body = tree.get('children')
    for n in hoisted(body):
        prog.names.add(n)
    walk(body, prog)
    occ.sort(key=lambda o: o[0])
    return occ


def uses_with_or_eval(tree):
    found = []

    def rec(v):
        if isinstance(v, RNode):
            if v.kind == 'With':
                found.append('with')
            if v.kind == 'Identifier' and v.get('value') == 'eval':
                found.append('eval')
            if v.kind == 'Identifier' and v.get('value') == 'arguments':
                found.append('arguments')
            for k, x in v.fields:
                rec(x)
        elif isinstance(v, (list, tuple)):
            for x in v:
                rec(x)
    rec(tree)
    return found
