# -*- coding: utf-8 -*-
"""
R2: ES5.1 reference parser - hand-written recursive descent over R1.

* context-aware scanning: a `/` is re-scanned as a RegularExpressionLiteral
  exactly where the syntactic grammar wants a PrimaryExpression;
* NoIn flag, ExpressionStatement look-ahead restriction, `else` to nearest
  `if`, accessors with any PropertyName;
* automatic semicolon insertion literally from 7.9.1 (offending token
  preceded by a LineTerminator / `}` / end of input; restricted productions;
  never in a `for` header, never producing an empty statement);
* function declarations are accepted wherever a Statement is (the property
  says they are deliberately admitted); early errors are not checked.

Result of `parse(text)`:
    Accept(tree, lexer)     tree is an RNode mirroring calmjs asttypes names
    Reject(offset, at_eof, reason)
    Abstain(reason)
"""
from __future__ import unicode_literals

from mc.refmodel.tree import N
from mc.refmodel.lexer import (
    Lexer, LexError, Abstain as LexAbstain, RESERVED, LineIndex)

ASSIGN_OPS = frozenset(
    ['=', '*=', '/=', '%=', '+=', '-=', '<<=', '>>=', '>>>=', '&=', '^=',
     '|='])
UNARY_WORDS = frozenset(['delete', 'void', 'typeof'])
UNARY_PUNCT = frozenset(['++', '--', '+', '-', '~', '!'])
BINARY_PREC = {
    '||': 1, '&&': 2, '|': 3, '^': 4, '&': 5,
    '==': 6, '!=': 6, '===': 6, '!==': 6,
    '<': 7, '>': 7, '<=': 7, '>=': 7, 'instanceof': 7, 'in': 7,
    '<<': 8, '>>': 8, '>>>': 8,
    '+': 9, '-': 9,
    '*': 10, '/': 10, '%': 10,
}


class RNode(object):
    __slots__ = ('kind', 'fields', 'start', 'end', 'toks', 'semi', 'lhs',
                 'first_tok')

    def __init__(self, kind, fields, start, end, toks=()):
        self.kind = kind
        self.fields = fields        # list of (name, value)
        self.start = start          # offset of first token
        self.end = end              # offset after last token
        self.toks = list(toks)      # own tokens: (text, offset)
        self.semi = None            # ('explicit', off) / ('inserted', off)
        self.lhs = False

    def get(self, name):
        for k, v in self.fields:
            if k == name:
                return v
        raise KeyError(name)

    def __repr__(self):
        return 'RNode(%s@%d)' % (self.kind, self.start)


def neutral(v):
    """Nested tuples: (kind, ((field, value), ...)) with sorted fields."""
    if isinstance(v, RNode):
        return N((v.kind, tuple(sorted(
            (k, neutral(x)) for k, x in v.fields))))
    if isinstance(v, (list, tuple)):
        return tuple(neutral(x) for x in v)
    return v


class Reject(Exception):
    def __init__(self, offset, at_eof, reason):
        Exception.__init__(self, offset, at_eof, reason)
        self.offset = offset
        self.at_eof = at_eof
        self.reason = reason


class Accept(object):
    verdict = 'accept'

    def __init__(self, tree, lexer, tokens, asi):
        self.tree = tree
        self.lexer = lexer
        self.tokens = tokens      # consumed tokens in order
        self.asi = asi            # offsets at which a semicolon was inserted

    @property
    def neutral(self):
        return neutral(self.tree)


class Rejected(object):
    verdict = 'reject'

    def __init__(self, offset, at_eof, reason, tokens=(), tok=None):
        self.offset = offset
        self.at_eof = at_eof
        self.reason = reason
        self.tokens = tokens      # tokens consumed before the error
        self.tok = tok            # look-ahead token at the error (or None)


class Abstained(object):
    verdict = 'abstain'

    def __init__(self, reason):
        self.reason = reason


def parse(text):
    p = Parser(text)
    try:
        tree = p.parse_program()
    except Reject as e:
        return Rejected(e.offset, e.at_eof, e.reason, p.tokens, p.tok)
    except LexError as e:
        return Rejected(e.offset, e.offset >= len(text), 'lex:' + e.reason,
                        p.tokens, None)
    except LexAbstain as e:
        return Abstained(e.reason)
    except RecursionError:
        return Abstained('recursion-limit')
    return Accept(tree, p.lex, p.tokens, p.asi)


class Parser(object):

    def __init__(self, text):
        self.text = text
        self.lex = Lexer(text)
        self.tokens = []
        self.asi = []
        self.last_end = 0
        self.tok = None
        self.in_noin = False

    # -- token plumbing ---------------------------------------------------
    def advance(self):
        t = self.tok
        self.tokens.append(t)
        self.last_end = t.end
        self.tok = self.lex.scan(t.end, 'div')
        return t

    def fail(self, reason, tok=None):
        tok = tok or self.tok
        raise Reject(tok.start, tok.type == 'eof', reason)

    def is_p(self, value):
        return self.tok.type == 'punct' and self.tok.value == value

    def is_w(self, value):
        return self.tok.type == 'id' and self.tok.value == value and \
            self.tok.extra is None

    def expect_p(self, value, toks=None):
        if not self.is_p(value):
            self.fail('expected ' + value)
        t = self.advance()
        if toks is not None:
            toks.append((t.value, t.start))
        return t

    def expect_w(self, value, toks=None):
        if not self.is_w(value):
            self.fail('expected ' + value)
        t = self.advance()
        if toks is not None:
            toks.append((t.value, t.start))
        return t

    def node(self, kind, fields, start, toks=()):
        return RNode(kind, fields, start, self.last_end, toks)

    def consume_semicolon(self, node):
        t = self.tok
        if t.type == 'punct' and t.value == ';':
            self.advance()
            node.semi = ('explicit', t.start)
            node.toks.append((';', t.start))
            node.end = self.last_end
            return
        if t.type == 'eof' or (t.type == 'punct' and t.value == '}') or \
                t.nl_before:
            node.semi = ('inserted', self.last_end)
            self.asi.append(self.last_end)
            return
        self.fail('expected ;')

    # -- program / statements ---------------------------------------------
    def parse_program(self):
        self.tok = self.lex.scan(0, 'div')
        body = []
        while self.tok.type != 'eof':
            body.append(self.parse_statement())
        start = body[0].start if body else self.tok.start
        return self.node('ES5Program', [('children', body)], start)

    def parse_source_elements(self):
        """until `}` (not consumed)"""
        body = []
        while not self.is_p('}'):
            if self.tok.type == 'eof':
                self.fail('expected }')
            body.append(self.parse_statement())
        return body

    def parse_identifier(self, what='identifier'):
        t = self.tok
        if t.type != 'id' or (t.extra is None and t.value in RESERVED):
            self.fail('expected ' + what)
        self.advance()
        return self.node('Identifier', [('value', t.value)], t.start)

    def parse_statement(self):
        t = self.tok
        if t.type == 'punct':
            if t.value == '{':
                return self.parse_block()
            if t.value == ';':
                self.advance()
                n = self.node('EmptyStatement', [('value', ';')], t.start,
                              [(';', t.start)])
                n.semi = ('explicit', t.start)
                return n
        elif t.type == 'id' and t.extra is None:
            m = getattr(self, 'st_' + t.value, None) \
                if t.value in STATEMENT_WORDS else None
            if m is not None:
                return m()
        return self.parse_expression_statement()

    def parse_block(self):
        toks = []
        o = self.expect_p('{', toks)
        body = self.parse_source_elements()
        self.expect_p('}', toks)
        return self.node('Block', [('children', body)], o.start, toks)

    def st_var(self):
        toks = []
        o = self.expect_w('var', toks)
        decls = self.parse_var_decls(False, toks)
        n = self.node('VarStatement', [('children', decls)], o.start, toks)
        self.consume_semicolon(n)
        return n

    def parse_var_decls(self, noin, toks):
        decls = []
        while True:
            ident = self.parse_identifier()
            init = None
            dt = []
            if self.is_p('='):
                self.expect_p('=', dt)
                init = self.parse_assignment(noin)
            decls.append(self.node(
                'VarDecl', [('identifier', ident), ('initializer', init)],
                ident.start, dt))
            if self.is_p(','):
                self.expect_p(',', toks)
                continue
            return decls

    def parse_expression_statement(self):
        t = self.tok
        expr = self.parse_expression(False)
        if expr.kind == 'Identifier' and self.is_p(':'):
            toks = []
            self.expect_p(':', toks)
            body = self.parse_statement()
            return self.node(
                'Label', [('identifier', expr), ('statement', body)],
                t.start, toks)
        n = self.node('ExprStatement', [('expr', expr)], t.start)
        self.consume_semicolon(n)
        return n

    def paren_expr(self, toks):
        self.expect_p('(', toks)
        e = self.parse_expression(False)
        self.expect_p(')', toks)
        return e

    def st_if(self):
        toks = []
        o = self.expect_w('if', toks)
        pred = self.paren_expr(toks)
        cons = self.parse_statement()
        alt = None
        if self.is_w('else'):
            self.expect_w('else', toks)
            alt = self.parse_statement()
        return self.node('If', [('predicate', pred), ('consequent', cons),
                                ('alternative', alt)], o.start, toks)

    def st_do(self):
        toks = []
        o = self.expect_w('do', toks)
        body = self.parse_statement()
        self.expect_w('while', toks)
        pred = self.paren_expr(toks)
        n = self.node('DoWhile', [('predicate', pred), ('statement', body)],
                      o.start, toks)
        self.consume_semicolon(n)
        return n

    def st_while(self):
        toks = []
        o = self.expect_w('while', toks)
        pred = self.paren_expr(toks)
        body = self.parse_statement()
        return self.node('While', [('predicate', pred), ('statement', body)],
                         o.start, toks)

    def st_for(self):
        toks = []
        o = self.expect_w('for', toks)
        self.expect_p('(', toks)
        init = None
        if self.is_w('var'):
            vt = []
            v = self.expect_w('var', vt)
            decls = self.parse_var_decls(True, vt)
            if len(decls) == 1 and self.is_w('in'):
                d = decls[0]
                item = RNode('VarDeclNoIn', d.fields, v.start, d.end,
                             vt + d.toks)
                return self.finish_for_in(o, toks, item)
            init = self.node('VarStatement', [('children', decls)], v.start,
                             vt)
        elif not self.is_p(';'):
            e = self.parse_expression(True)
            if self.is_w('in') and e.lhs:
                return self.finish_for_in(o, toks, e)
            init = RNode('ExprStatement', [('expr', e)], e.start, e.end)
        if init is None:
            init = RNode('EmptyStatement', [('value', ';')], self.tok.start,
                         self.tok.start)
            init.semi = ('placeholder', self.tok.start)
        self.expect_p(';', toks)
        if self.is_p(';'):
            cond = RNode('EmptyStatement', [('value', ';')], self.tok.start,
                         self.tok.start)
            cond.semi = ('placeholder', self.tok.start)
        else:
            e = self.parse_expression(False)
            cond = RNode('ExprStatement', [('expr', e)], e.start, e.end)
        self.expect_p(';', toks)
        count = None
        if not self.is_p(')'):
            count = self.parse_expression(False)
        self.expect_p(')', toks)
        body = self.parse_statement()
        return self.node('For', [('init', init), ('cond', cond),
                                 ('count', count), ('statement', body)],
                         o.start, toks)

    def finish_for_in(self, o, toks, item):
        self.expect_w('in', toks)
        it = self.parse_expression(False)
        self.expect_p(')', toks)
        body = self.parse_statement()
        return self.node('ForIn', [('item', item), ('iterable', it),
                                   ('statement', body)], o.start, toks)

    def jump(self, word, kind):
        toks = []
        o = self.expect_w(word, toks)
        ident = None
        t = self.tok
        if t.type == 'id' and not t.nl_before and not (
                t.extra is None and t.value in RESERVED):
            ident = self.parse_identifier()
        n = self.node(kind, [('identifier', ident)], o.start, toks)
        self.consume_semicolon(n)
        return n

    def st_continue(self):
        return self.jump('continue', 'Continue')

    def st_break(self):
        return self.jump('break', 'Break')

    def st_return(self):
        toks = []
        o = self.expect_w('return', toks)
        expr = None
        t = self.tok
        if not (t.type == 'eof' or t.nl_before or
                (t.type == 'punct' and t.value in (';', '}'))):
            expr = self.parse_expression(False)
        n = self.node('Return', [('expr', expr)], o.start, toks)
        self.consume_semicolon(n)
        return n

    def st_throw(self):
        toks = []
        o = self.expect_w('throw', toks)
        if self.tok.nl_before:
            self.fail('line terminator after throw')
        expr = self.parse_expression(False)
        n = self.node('Throw', [('expr', expr)], o.start, toks)
        self.consume_semicolon(n)
        return n

    def st_with(self):
        toks = []
        o = self.expect_w('with', toks)
        e = self.paren_expr(toks)
        body = self.parse_statement()
        return self.node('With', [('expr', e), ('statement', body)],
                         o.start, toks)

    def st_switch(self):
        toks = []
        o = self.expect_w('switch', toks)
        e = self.paren_expr(toks)
        bt = []
        b = self.expect_p('{', bt)
        clauses = []
        seen_default = False
        while not self.is_p('}'):
            ct = []
            c = self.tok
            if self.is_w('case'):
                self.expect_w('case', ct)
                ce = self.parse_expression(False)
                self.expect_p(':', ct)
                kind, fields = 'Case', [('expr', ce)]
            elif self.is_w('default'):
                if seen_default:
                    self.fail('second default')
                seen_default = True
                self.expect_w('default', ct)
                self.expect_p(':', ct)
                kind, fields = 'Default', []
            else:
                self.fail('expected case/default/}')
            body = []
            while not (self.is_p('}') or self.is_w('case') or
                       self.is_w('default')):
                if self.tok.type == 'eof':
                    self.fail('expected }')
                body.append(self.parse_statement())
            clauses.append(self.node(kind, fields + [('elements', body)],
                                     c.start, ct))
        self.expect_p('}', bt)
        cb = self.node('CaseBlock', [('children', clauses)], b.start, bt)
        return self.node('Switch', [('expr', e), ('case_block', cb)],
                         o.start, toks)

    def st_try(self):
        toks = []
        o = self.expect_w('try', toks)
        block = self.parse_block()
        catch = fin = None
        if self.is_w('catch'):
            ct = []
            c = self.expect_w('catch', ct)
            self.expect_p('(', ct)
            ident = self.parse_identifier()
            self.expect_p(')', ct)
            cb = self.parse_block()
            catch = self.node('Catch', [('identifier', ident),
                                        ('elements', cb)], c.start, ct)
        if self.is_w('finally'):
            ft = []
            f = self.expect_w('finally', ft)
            fb = self.parse_block()
            fin = self.node('Finally', [('elements', fb)], f.start, ft)
        if catch is None and fin is None:
            self.fail('expected catch or finally')
        return self.node('Try', [('statements', block), ('catch', catch),
                                 ('fin', fin)], o.start, toks)

    def st_debugger(self):
        toks = []
        o = self.expect_w('debugger', toks)
        n = self.node('Debugger', [('value', 'debugger')], o.start, toks)
        self.consume_semicolon(n)
        return n

    def st_function(self):
        return self.parse_function(True)

    def parse_function(self, decl):
        toks = []
        o = self.expect_w('function', toks)
        ident = None
        if decl or not self.is_p('('):
            ident = self.parse_identifier('function name')
        self.expect_p('(', toks)
        params = []
        if not self.is_p(')'):
            while True:
                params.append(self.parse_identifier('parameter'))
                if self.is_p(','):
                    self.expect_p(',', toks)
                    continue
                break
        self.expect_p(')', toks)
        self.expect_p('{', toks)
        body = self.parse_source_elements()
        self.expect_p('}', toks)
        return self.node(
            'FuncDecl' if decl else 'FuncExpr',
            [('identifier', ident), ('parameters', params),
             ('elements', body)], o.start, toks)

    # -- expressions -------------------------------------------------------
    def parse_expression(self, noin):
        e = self.parse_assignment(noin)
        while self.is_p(','):
            toks = []
            self.expect_p(',', toks)
            r = self.parse_assignment(noin)
            e = self.node('Comma', [('left', e), ('right', r)], e.start, toks)
        return e

    def parse_assignment(self, noin):
        left = self.parse_conditional(noin)
        t = self.tok
        if t.type == 'punct' and t.value in ASSIGN_OPS:
            if not left.lhs:
                self.fail('assignment to non-LeftHandSideExpression')
            toks = []
            self.expect_p(t.value, toks)
            right = self.parse_assignment(noin)
            return self.node('Assign', [('op', t.value), ('left', left),
                                        ('right', right)], left.start, toks)
        return left

    def parse_conditional(self, noin):
        pred = self.parse_binary(noin, 1)
        if self.is_p('?'):
            toks = []
            self.expect_p('?', toks)
            cons = self.parse_assignment(False)
            self.expect_p(':', toks)
            alt = self.parse_assignment(noin)
            return self.node('Conditional', [
                ('predicate', pred), ('consequent', cons),
                ('alternative', alt)], pred.start, toks)
        return pred

    def binary_op(self, noin):
        t = self.tok
        if t.type == 'punct':
            if t.value in BINARY_PREC:
                return t.value
        elif t.type == 'id' and t.extra is None:
            if t.value == 'instanceof' or (t.value == 'in' and not noin):
                return t.value
        return None

    def parse_binary(self, noin, minprec):
        left = self.parse_unary()
        while True:
            op = self.binary_op(noin)
            if op is None or BINARY_PREC[op] < minprec:
                return left
            toks = []
            t = self.advance()
            toks.append((t.value, t.start))
            right = self.parse_binary(noin, BINARY_PREC[op] + 1)
            left = self.node('BinOp', [('op', op), ('left', left),
                                       ('right', right)], left.start, toks)

    def parse_unary(self):
        t = self.tok
        if (t.type == 'punct' and t.value in UNARY_PUNCT) or (
                t.type == 'id' and t.extra is None and
                t.value in UNARY_WORDS):
            self.advance()
            v = self.parse_unary()
            return self.node('UnaryExpr', [('op', t.value), ('value', v)],
                             t.start, [(t.value, t.start)])
        return self.parse_postfix()

    def parse_postfix(self):
        e = self.parse_lhs()
        t = self.tok
        if t.type == 'punct' and t.value in ('++', '--') and \
                not t.nl_before and e.lhs:
            self.advance()
            return self.node('PostfixExpr', [('op', t.value), ('value', e)],
                             e.start, [(t.value, t.start)])
        return e

    def parse_arguments(self):
        toks = []
        o = self.expect_p('(', toks)
        items = []
        if not self.is_p(')'):
            while True:
                items.append(self.parse_assignment(False))
                if self.is_p(','):
                    self.expect_p(',', toks)
                    continue
                break
        self.expect_p(')', toks)
        return self.node('Arguments', [('items', items)], o.start, toks)

    def member_suffixes(self, e, allow_call):
        while True:
            t = self.tok
            if t.type != 'punct':
                return e
            if t.value == '.':
                toks = []
                self.expect_p('.', toks)
                n = self.tok
                if n.type != 'id':
                    self.fail('expected property name')
                self.advance()
                prop = self.node('PropIdentifier', [('value', n.value)],
                                 n.start)
                e = self.node('DotAccessor', [('node', e),
                                              ('identifier', prop)],
                              e.start, toks)
            elif t.value == '[':
                toks = []
                self.expect_p('[', toks)
                x = self.parse_expression(False)
                self.expect_p(']', toks)
                e = self.node('BracketAccessor', [('node', e), ('expr', x)],
                              e.start, toks)
            elif t.value == '(' and allow_call:
                args = self.parse_arguments()
                e = self.node('FunctionCall', [('identifier', e),
                                               ('args', args)], e.start)
            else:
                return e

    def parse_new(self):
        toks = []
        o = self.expect_w('new', toks)
        if self.is_w('new'):
            callee = self.parse_new()
        else:
            callee = self.parse_primary()
        callee = self.member_suffixes(callee, False)
        args = None
        if self.is_p('('):
            args = self.parse_arguments()
        return self.node('NewExpr', [('identifier', callee), ('args', args)],
                         o.start, toks)

    def parse_lhs(self):
        if self.is_w('new'):
            e = self.parse_new()
        else:
            e = self.parse_primary()
        e = self.member_suffixes(e, True)
        e.lhs = True
        return e

    def parse_primary(self):
        t = self.tok
        if t.type == 'punct':
            v = t.value
            if v == '/' or v == '/=':
                # context-aware scanning: only here can `/` start a token
                # of the RegExp goal
                r = self.lex.scan(t.gap_start, 'regex')
                self.tok = r
                self.advance()
                return self.node('Regex', [('value', r.value)], r.start)
            if v == '(':
                toks = []
                self.expect_p('(', toks)
                e = self.parse_expression(False)
                self.expect_p(')', toks)
                if e.kind == 'GroupingOp':
                    # the library collapses directly nested groups
                    e.toks = toks[:1] + e.toks + toks[1:]
                    e.start = t.start
                    e.end = self.last_end
                    return e
                return self.node('GroupingOp', [('expr', e)], t.start, toks)
            if v == '[':
                return self.parse_array()
            if v == '{':
                return self.parse_object()
            self.fail('unexpected punctuator')
        if t.type == 'num':
            self.advance()
            return self.node('Number', [('value', t.value)], t.start)
        if t.type == 'str':
            self.advance()
            return self.node('String', [('value', t.value)], t.start)
        if t.type == 'id':
            if t.extra is None:
                v = t.value
                if v == 'this':
                    self.advance()
                    return self.node('This', [], t.start, [(v, t.start)])
                if v == 'function':
                    return self.parse_function(False)
                if v == 'null':
                    self.advance()
                    return self.node('Null', [('value', v)], t.start)
                if v == 'true' or v == 'false':
                    self.advance()
                    return self.node('Boolean', [('value', v)], t.start)
                if v in RESERVED:
                    self.fail('unexpected reserved word')
            self.advance()
            return self.node('Identifier', [('value', t.value)], t.start)
        self.fail('unexpected token')

    def parse_array(self):
        toks = []
        o = self.expect_p('[', toks)
        items = []
        after_element = False
        while not self.is_p(']'):
            if self.is_p(','):
                c = self.tok
                if after_element:
                    # separator comma
                    self.expect_p(',', toks)
                    after_element = False
                    continue
                n = 0
                etoks = []
                while self.is_p(','):
                    self.expect_p(',', etoks)
                    n += 1
                items.append(self.node('Elision', [('value', n)], c.start,
                                       etoks))
                after_element = False
            else:
                if after_element:
                    self.fail('expected , or ]')
                items.append(self.parse_assignment(False))
                after_element = True
        self.expect_p(']', toks)
        return self.node('Array', [('items', items)], o.start, toks)

    def parse_property_name(self):
        t = self.tok
        if t.type == 'id':
            self.advance()
            return self.node('PropIdentifier', [('value', t.value)], t.start)
        if t.type == 'str':
            self.advance()
            return self.node('String', [('value', t.value)], t.start)
        if t.type == 'num':
            self.advance()
            return self.node('Number', [('value', t.value)], t.start)
        self.fail('expected property name')

    def parse_object(self):
        toks = []
        o = self.expect_p('{', toks)
        props = []
        while not self.is_p('}'):
            t = self.tok
            name = self.parse_property_name()
            if t.type == 'id' and t.extra is None and \
                    t.value in ('get', 'set') and not self.is_p(':'):
                pt = [(t.value, t.start)]
                pname = self.parse_property_name()
                self.expect_p('(', pt)
                param = None
                if t.value == 'set':
                    param = self.parse_identifier('setter parameter')
                self.expect_p(')', pt)
                self.expect_p('{', pt)
                body = self.parse_source_elements()
                self.expect_p('}', pt)
                if t.value == 'get':
                    props.append(self.node('GetPropAssign', [
                        ('prop_name', pname), ('elements', body)],
                        t.start, pt))
                else:
                    props.append(self.node('SetPropAssign', [
                        ('prop_name', pname), ('parameter', param),
                        ('elements', body)], t.start, pt))
            else:
                pt = []
                self.expect_p(':', pt)
                val = self.parse_assignment(False)
                props.append(self.node('Assign', [
                    ('op', ':'), ('left', name), ('right', val)],
                    t.start, pt))
            if self.is_p(','):
                self.expect_p(',', toks)
                continue
            break
        self.expect_p('}', toks)
        return self.node('Object', [('properties', props)], o.start, toks)


STATEMENT_WORDS = frozenset([
    'var', 'if', 'do', 'while', 'for', 'continue', 'break', 'return', 'with',
    'switch', 'throw', 'try', 'debugger', 'function'])


def line_index(text):
    return LineIndex(text)
