# -*- coding: utf-8 -*-
"""
R1: ES5.1 lexer written from ECMA-262 5.1 clause 7.

Independent of ply and of the repository's regular expressions and Unicode
tables (character classes come from `unicodedata`).  The goal symbol
(InputElementDiv / InputElementRegExp) is chosen by the caller (the parser
R2), which is the specification's own definition.

Three kinds of results: a token, LexError(offset, reason) for text that is not
derivable, Abstain(reason) where ES5 engines de facto disagree with the letter
of the specification or the properties exclude the construct (legacy octal,
\\8 \\9 escapes, U+180E, exotic identifier characters, exotic regex flags).
"""
from __future__ import unicode_literals

import unicodedata

LT_CHARS = '\n\r\u2028\u2029'
WS_ASCII = '\t\x0b\x0c \xa0\ufeff'

KEYWORDS = frozenset('''break case catch continue debugger default delete do
else finally for function if in instanceof new return switch this throw try
typeof var void while with'''.split())
FUTURE_RESERVED = frozenset(
    'class const enum export extends import super'.split())
LITERAL_WORDS = frozenset(['null', 'true', 'false'])
RESERVED = KEYWORDS | FUTURE_RESERVED | LITERAL_WORDS

PUNCTUATORS = sorted('''{ } ( ) [ ] . ; , < > <= >= == != === !== + - * % ++
-- << >> >>> & | ^ ! ~ && || ? : = += -= *= %= <<= >>= >>>= &= |= ^= / /='''
                     .split(), key=lambda s: -len(s))
PUNCT_FIRST = frozenset(p[0] for p in PUNCTUATORS)

HEX = '0123456789abcdefABCDEF'
DIGITS = '0123456789'


class LexError(Exception):
    def __init__(self, offset, reason):
        Exception.__init__(self, offset, reason)
        self.offset = offset
        self.reason = reason


class Abstain(Exception):
    def __init__(self, reason):
        Exception.__init__(self, reason)
        self.reason = reason


def is_ws(ch):
    if ch in WS_ASCII:
        return True
    if ord(ch) < 128:
        return False
    if ch == '\u180e':
        raise Abstain('U+180E')
    return unicodedata.category(ch) == 'Zs'


_OLD = unicodedata.ucd_3_2_0
# BMP letters that Unicode 3.1 / 3.2 added: ES5 requires Unicode 3.0 "or
# later", so engines may or may not know them
_ADDED_AFTER_3_0 = (
    (0x220, 0x220), (0x3D8, 0x3D9), (0x3F4, 0x3F6), (0x48A, 0x48B),
    (0x4C5, 0x4C6), (0x4C9, 0x4CA), (0x4CD, 0x4CE), (0x500, 0x52F),
    (0x7B1, 0x7B1), (0x10F7, 0x10F8), (0x1700, 0x177F), (0x17D7, 0x17DD),
    (0x2071, 0x2071), (0x3095, 0x3096), (0x309F, 0x30A0), (0x30FF, 0x30FF),
    (0x31F0, 0x31FF), (0xFA30, 0xFA6A), (0xFE00, 0xFE0F), (0xFE45, 0xFE46),
    (0xFE73, 0xFE73), (0xFF5F, 0xFF60), (0x34F, 0x34F), (0x363, 0x36F),
    (0x2047, 0x2047), (0x204E, 0x2052), (0x2057, 0x2057), (0x205F, 0x2063),
)


def _stable_nonascii(ch):
    """the general category of ch is the same in Unicode 3.2 and in the
    Unicode version of this interpreter, ch is in the BMP and was not added
    by Unicode 3.1 / 3.2: every ES5 engine classifies it alike"""
    o = ord(ch)
    if o > 0xFFFF or ch in '\xd7\xf7':
        return False
    if any(a <= o <= b for a, b in _ADDED_AFTER_3_0):
        return False
    old = _OLD.category(ch)
    return old != 'Cn' and old == unicodedata.category(ch)


# Other_ID_Start / Other_ID_Continue: identifier characters from ES2015 on,
# not by the category rule of ES5 - engines disagree, the reference abstains
OTHER_ID = frozenset('\u2118\u212e\u309b\u309c\xb7\u0387\u19da' + ''.join(
    chr(c) for c in range(0x1369, 0x1372)))


def is_id_start(ch):
    if ch in '$_' or 'a' <= ch <= 'z' or 'A' <= ch <= 'Z':
        return True
    if ord(ch) < 128:
        return False
    if ch in OTHER_ID:
        raise Abstain('other-id-start-continue')
    cat = unicodedata.category(ch)
    r = cat in ('Lu', 'Ll', 'Lt', 'Lm', 'Lo', 'Nl')
    if not _stable_nonascii(ch) and (r or cat in ('Mn', 'Mc', 'Nd', 'Pc',
                                                   'Cn', 'Co', 'Cs')):
        raise Abstain('exotic-identifier-character')
    return r


def is_id_part(ch):
    if ch in '$_' or 'a' <= ch <= 'z' or 'A' <= ch <= 'Z' or '0' <= ch <= '9':
        return True
    if ord(ch) < 128:
        return False
    if ch in '\u200c\u200d':
        return True
    if ch in OTHER_ID:
        raise Abstain('other-id-start-continue')
    cat = unicodedata.category(ch)
    r = cat in ('Lu', 'Ll', 'Lt', 'Lm', 'Lo', 'Nl', 'Mn', 'Mc', 'Nd', 'Pc')
    if not _stable_nonascii(ch) and (r or cat in ('Cn', 'Co', 'Cs')):
        raise Abstain('exotic-identifier-character')
    return r


class Tok(object):
    __slots__ = ('type', 'value', 'start', 'end', 'nl_before', 'gap_start',
                 'extra')

    def __init__(self, type_, value, start, end):
        self.type = type_      # id punct num str regex eof
        self.value = value
        self.start = start
        self.end = end
        self.nl_before = False
        self.gap_start = start
        self.extra = None

    def __repr__(self):
        return 'Tok(%s,%r,%d)' % (self.type, self.value, self.start)

    @property
    def reserved(self):
        return self.type == 'id' and self.value in RESERVED


def line_starts(text):
    """Offsets at which each line begins (ES5 line terminators; CRLF = 1)."""
    starts = [0]
    i = 0
    n = len(text)
    while i < n:
        c = text[i]
        if c == '\r':
            if i + 1 < n and text[i + 1] == '\n':
                i += 1
            starts.append(i + 1)
        elif c == '\n' or c == '\u2028' or c == '\u2029':
            starts.append(i + 1)
        i += 1
    return starts


class LineIndex(object):
    def __init__(self, text):
        self.starts = line_starts(text)

    def linecol(self, offset):
        """1-based line and 1-based column of an offset."""
        import bisect
        i = bisect.bisect_right(self.starts, offset) - 1
        return i + 1, offset - self.starts[i] + 1

    def offset(self, line, col):
        """offset of (line, col), or None when that line has no such
        column (a position past the end of its line designates nothing)"""
        if line < 1 or line > len(self.starts) or col < 1:
            return None
        off = self.starts[line - 1] + col - 1
        if line < len(self.starts) and off >= self.starts[line]:
            return None
        return off

    @property
    def nlines(self):
        return len(self.starts)


class Lexer(object):

    def __init__(self, text):
        self.text = text
        self.n = len(text)
        self.comments = {}     # start -> (start, end, kind, has_lt)
        self._memo = {}

    # -- layout ---------------------------------------------------------
    def skip_layout(self, pos):
        """Returns (new_pos, saw_line_terminator)."""
        text, n = self.text, self.n
        nl = False
        while pos < n:
            c = text[pos]
            if c in LT_CHARS:
                nl = True
                pos += 1
            elif c == '/' and pos + 1 < n and text[pos + 1] == '/':
                e = pos + 2
                while e < n and text[e] not in LT_CHARS:
                    e += 1
                self.comments[pos] = (pos, e, 'line', False)
                pos = e
            elif c == '/' and pos + 1 < n and text[pos + 1] == '*':
                e = text.find('*/', pos + 2)
                if e < 0:
                    raise LexError(pos, 'unterminated-comment')
                body = text[pos:e + 2]
                has_lt = any(ch in body for ch in LT_CHARS)
                self.comments[pos] = (pos, e + 2, 'block', has_lt)
                if has_lt:
                    nl = True
                pos = e + 2
            elif is_ws(c):
                pos += 1
            else:
                break
        return pos, nl

    # -- tokens ---------------------------------------------------------
    def scan(self, pos, goal='div'):
        key = (pos, goal)
        r = self._memo.get(key)
        if r is not None:
            if isinstance(r, Exception):
                raise r
            return r
        try:
            r = self._scan(pos, goal)
        except (LexError, Abstain) as e:
            self._memo[key] = e
            raise
        self._memo[key] = r
        return r

    def _scan(self, pos, goal):
        gap_start = pos
        pos, nl = self.skip_layout(pos)
        if pos >= self.n:
            t = Tok('eof', '', pos, pos)
        else:
            t = self.token_at(pos, goal)
        t.nl_before = nl
        t.gap_start = gap_start
        return t

    def token_at(self, pos, goal):
        text, n = self.text, self.n
        c = text[pos]
        if c == '\\' or is_id_start(c):
            return self.identifier(pos)
        if c in DIGITS or (c == '.' and pos + 1 < n and
                           text[pos + 1] in DIGITS):
            return self.number(pos)
        if c == '"' or c == "'":
            return self.string(pos)
        if c == '/' and goal == 'regex':
            return self.regex(pos)
        if c in PUNCT_FIRST:
            for p in PUNCTUATORS:
                if text.startswith(p, pos):
                    return Tok('punct', p, pos, pos + len(p))
        raise LexError(pos, 'illegal-character')

    def identifier(self, pos):
        text, n = self.text, self.n
        i = pos
        chars = []
        escaped = False
        first = True
        while i < n:
            c = text[i]
            if c == '\\':
                if text[i + 1:i + 2] != 'u' or len(text[i + 2:i + 6]) < 4 or \
                        any(h not in HEX for h in text[i + 2:i + 6]):
                    raise LexError(i, 'bad-identifier-escape')
                ch = chr(int(text[i + 2:i + 6], 16))
                ok = is_id_start(ch) if first else is_id_part(ch)
                if not ok:
                    raise LexError(i, 'bad-identifier-escape')
                chars.append(ch)
                escaped = True
                i += 6
            elif (is_id_start(c) if first else is_id_part(c)):
                chars.append(c)
                i += 1
            else:
                break
            first = False
        t = Tok('id', text[pos:i], pos, i)
        if escaped:
            # the *meaning* of an escaped reserved word is contested
            t.extra = ''.join(chars)
            if t.extra in RESERVED:
                raise Abstain('escaped-reserved-word')
        return t

    def number(self, pos):
        text, n = self.text, self.n
        i = pos
        if text[i] == '0' and text[i + 1:i + 2] in ('x', 'X'):
            j = i + 2
            while j < n and text[j] in HEX:
                j += 1
            if j == i + 2:
                raise LexError(i + 1, 'identifier-after-number')
            i = j
        else:
            if text[i] == '0' and text[i + 1:i + 2] != '' and \
                    text[i + 1] in DIGITS:
                raise Abstain('legacy-octal-number')
            while i < n and text[i] in DIGITS:
                i += 1
            if i < n and text[i] == '.':
                i += 1
                while i < n and text[i] in DIGITS:
                    i += 1
            if i < n and text[i] in 'eE':
                j = i + 1
                if j < n and text[j] in '+-':
                    j += 1
                if j < n and text[j] in DIGITS:
                    while j < n and text[j] in DIGITS:
                        j += 1
                    i = j
                else:
                    raise LexError(i, 'identifier-after-number')
        if i < n:
            c = text[i]
            if c in DIGITS or c == '\\' or is_id_start(c):
                raise LexError(i, 'identifier-after-number')
        return Tok('num', text[pos:i], pos, i)

    def string(self, pos):
        text, n = self.text, self.n
        q = text[pos]
        i = pos + 1
        cont = False
        while True:
            if i >= n:
                raise LexError(pos, 'unterminated-string')
            c = text[i]
            if c == q:
                i += 1
                break
            if c in LT_CHARS:
                raise LexError(pos, 'unterminated-string')
            if c == '\\':
                if i + 1 >= n:
                    raise LexError(pos, 'unterminated-string')
                d = text[i + 1]
                if d in LT_CHARS:
                    cont = True
                    i += 3 if (d == '\r' and text[i + 2:i + 3] == '\n') else 2
                elif d == 'x':
                    h = text[i + 2:i + 4]
                    if len(h) < 2 or any(x not in HEX for x in h):
                        raise LexError(i, 'bad-hex-escape')
                    i += 4
                elif d == 'u':
                    h = text[i + 2:i + 6]
                    if len(h) < 4 or any(x not in HEX for x in h):
                        raise LexError(i, 'bad-unicode-escape')
                    i += 6
                elif d == '0':
                    if text[i + 2:i + 3] != '' and text[i + 2] in DIGITS:
                        raise Abstain('octal-escape')
                    i += 2
                elif d in DIGITS:
                    raise Abstain('octal-escape')
                else:
                    i += 2
            else:
                i += 1
        t = Tok('str', text[pos:i], pos, i)
        t.extra = cont
        return t

    def regex(self, pos):
        text, n = self.text, self.n
        i = pos + 1
        first = True
        in_class = False
        while True:
            if i >= n or text[i] in LT_CHARS:
                raise LexError(pos, 'unterminated-regex')
            c = text[i]
            if c == '\\':
                if i + 1 >= n or text[i + 1] in LT_CHARS:
                    raise LexError(pos, 'unterminated-regex')
                i += 2
            elif in_class:
                if c == ']':
                    in_class = False
                i += 1
            elif c == '[':
                in_class = True
                i += 1
            elif c == '/':
                if first:
                    # `//` is a comment, never an empty regex
                    raise LexError(pos, 'empty-regex')
                i += 1
                break
            elif first and c == '*':
                raise LexError(pos, 'regex-starting-with-star')
            else:
                i += 1
            first = False
        j = i
        while j < n and (text[j] == '\\' or is_id_part(text[j])):
            if text[j] == '\\' or not (
                    'a' <= text[j] <= 'z' or 'A' <= text[j] <= 'Z' or
                    '0' <= text[j] <= '9'):
                raise Abstain('exotic-regex-flags')
            j += 1
        return Tok('regex', text[pos:j], pos, j)

    def all_comments(self):
        return [self.comments[k] for k in sorted(self.comments)]
