# -*- coding: utf-8 -*-
"""setup_cmd: sanity checks of the machinery that need neither network nor
/repo: reference-model unit tests and a manifest/evidence schema check."""
from __future__ import unicode_literals

import json
import os
import sys

VERIF = os.path.dirname(os.path.dirname(os.path.abspath(__file__)))


def main():
    ok = True
    from mc.refmodel import sourcemap as R5
    for n, s in [(0, 'A'), (1, 'C'), (-1, 'D'), (123, '2H'), (16, 'gB'),
                 (-16, 'hB'), (15, 'e'), (-15, 'f'), (512, 'ggB')]:
        if R5.encode_int(n) != s or R5.decode_ints(s) != [n]:
            print('selftest: R5 codec wrong for', n, s)
            ok = False
    try:
        from mc import selftest_ref
        ok = selftest_ref.main() and ok
    except ImportError:
        pass
    with open(os.path.join(VERIF, 'MANIFEST.json')) as fd:
        man = json.load(fd)
    ids = [json.loads(l)['id'] for l in open(
        os.path.join(VERIF, 'properties.jsonl')) if l.strip()]
    claimed = [c['property_id'] for c in man['checks']]
    na = [c['property_id'] for c in man.get('not_applicable', [])]
    for i in ids:
        if (i in claimed) == (i in na):
            print('selftest: property %s must be claimed xor not_applicable'
                  % i)
            ok = False
    print('selftest', 'ok' if ok else 'FAILED')
    return 0 if ok else 2
