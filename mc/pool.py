# -*- coding: utf-8 -*-
"""
Deterministic fork-based work partitioning.

`pmap(fn, items)` forks N children from the (single threaded) parent; child i
evaluates ``fn(items[i::N], i)`` and pickles the result to a file; the parent
collects the N results in index order.  Partitioning is by index (never by
timing), so which worker executes which case is reproducible.  A child that
dies or raises turns into a HarnessError in the parent - never a verdict.
"""
from __future__ import unicode_literals

import os
import pickle
import signal
import sys
import tempfile
import traceback

from mc.boot import HarnessError


def ncpu():
    try:
        n = int(os.environ.get('VERIF_WORKERS', '0'))
    except ValueError:
        n = 0
    if n > 0:
        return n
    try:
        return max(1, min(16, len(os.sched_getaffinity(0))))
    except Exception:
        return max(1, min(16, os.cpu_count() or 1))


class CaseTimeout(BaseException):
    pass


def _alarm(signum, frame):
    raise CaseTimeout()


def call_with_timeout(seconds, fn, *args, **kw):
    """
    Run fn under a watchdog measured in CPU time of this process
    (ITIMER_VIRTUAL), so that an overloaded machine can never turn a slow
    schedule into a "does not terminate" verdict; a genuine loop burns CPU
    and is caught.  Main thread of a worker only.
    """
    old = signal.signal(signal.SIGVTALRM, _alarm)
    signal.setitimer(signal.ITIMER_VIRTUAL, seconds)
    try:
        return fn(*args, **kw)
    finally:
        signal.setitimer(signal.ITIMER_VIRTUAL, 0)
        signal.signal(signal.SIGVTALRM, old)


def pmap(fn, items, nworkers=None, min_per_worker=1):
    """
    Returns [fn(items[i::n], i) for i in range(n)] computed in n forked
    children.  With n == 1 (or few items) runs in-process.
    """
    items = list(items)
    n = nworkers or ncpu()
    n = max(1, min(n, (len(items) + min_per_worker - 1) // min_per_worker))
    if n == 1:
        return [fn(items, 0)]
    tmpdir = tempfile.mkdtemp(prefix='verif_pool_')
    pids = []
    try:
        sys.stdout.flush()
        sys.stderr.flush()
        for i in range(n):
            pid = os.fork()
            if pid == 0:
                code = 0
                try:
                    res = fn(items[i::n], i)
                    with open(os.path.join(tmpdir, '%d.pkl' % i), 'wb') as fd:
                        pickle.dump(res, fd, protocol=pickle.HIGHEST_PROTOCOL)
                except BaseException:
                    code = 3
                    try:
                        with open(os.path.join(tmpdir, '%d.err' % i),
                                  'w') as fd:
                            fd.write(traceback.format_exc())
                    except Exception:
                        pass
                finally:
                    sys.stdout.flush()
                    sys.stderr.flush()
                    os._exit(code)
            pids.append(pid)
        status = {}
        for pid in pids:
            _, st = os.waitpid(pid, 0)
            status[pid] = st
        out = []
        for i, pid in enumerate(pids):
            errp = os.path.join(tmpdir, '%d.err' % i)
            if status[pid] != 0 or os.path.exists(errp):
                msg = ''
                if os.path.exists(errp):
                    with open(errp) as fd:
                        msg = fd.read()
                raise HarnessError(
                    'worker %d failed (status %r)\n%s' % (i, status[pid], msg))
            with open(os.path.join(tmpdir, '%d.pkl' % i), 'rb') as fd:
                out.append(pickle.load(fd))
        return out
    finally:
        import shutil
        shutil.rmtree(tmpdir, ignore_errors=True)


def unstripe(results, total):
    """Inverse of the i::n striping for per-item result lists."""
    n = len(results)
    out = [None] * total
    for i, r in enumerate(results):
        out[i::n] = r
    return out
