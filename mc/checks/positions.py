# -*- coding: utf-8 -*-
"""Shared pieces of C08 (fragment positions) and C11 (node positions)."""
from __future__ import unicode_literals

from mc.space import grammar as G
from mc.space import layouts as L

ONE_GAP = [('LF', '\n'), ('CRLF', '\r\n'), ('ML-COMMENT', ' /*\n*/ '),
           ('COMMENT', ' /*c*/ '), ('LS', '\u2028'),
           ('LINE-COMMENT', ' //c\n')]
UNIFORM = [('SP', ' '), ('LF', '\n'), ('CRLF', '\r\n'), ('CR', '\r'),
           ('LS', '\u2028'), ('SP-COMMENT-LF', ' /*c*/\n')]

MULTILINE_TOKENS = [
    "x = 'a\\\nb' + c ;", "x = 'a\\\r\nb\\\rc' , d ;",
    '/* one\n two */ a = 1 ; /* three\r\n four */ b = 2 ;',
    "f ( 'a\\\n\\\nb' , \n c ) ; g ( )",
    "// c\n// d\nx = 1 ; // e\ny = 2 ;",
    "var s = 'l1\\\u2028l2' ; t ;",
    # line terminators that are not LF/CR inside tokens; characters Python
    # takes for line boundaries inside tokens
    "/* a\u2028b\u2029 */ x = 1 ; /* c */ y ;",
    "x = 'p\\\u2029q' ; y = 2 ; z",
    "/* page\x0cbreak \x0b \x85 \x1c */ a = 1 ; b ;",
    "x = 'a\x0cb\x0bc' ; // d\x0ce\n y = 1 ; z ;",
    "a ;\x0c b ;\x0b c ;\x85 ; d",
    # a line comment directly followed by CR LF / CR (one line break each)
    "a ; // c\r\n b ; // d\r\n c ;",
    "// c\r\nb ; // d\rc ;",
]


def layouts_for(lex, one_gap, uniform):
    """[(text, layout description)]"""
    n = len(lex)
    out = []
    for name, sep in uniform:
        out.append((sep.join(lex), 'uniform-' + name))
    # a byte order mark (ES5 white space) in front of the program
    out.append(('\ufeff' + ' '.join(lex), 'bom-prefix'))
    out.append(('\ufeff\n' + '\n'.join(lex), 'bom-prefix-LF'))
    for name, sep in one_gap:
        for i in range(1, n):
            out.append((' '.join(lex[:i]) + sep + ' '.join(lex[i:]),
                        'gap-' + name))
    return out


def program_space(tier):
    """[(lexemes, one_gap kinds, uniform kinds)]"""
    items = []
    if tier == 'quick':
        for lex in G.programs(1):
            items.append((lex, ONE_GAP[:3], UNIFORM))
        for lex in G.chain_programs(2, G.CORE_FORMS):
            items.append((lex, [], UNIFORM[:3] + UNIFORM[4:5]))
    else:
        for lex in G.programs(1):
            items.append((lex, ONE_GAP, UNIFORM))
        for lex in G.programs(2):
            items.append((lex, ONE_GAP[:2], UNIFORM))
        for lex in G.chain_programs(3, G.CORE_FORMS):
            items.append((lex, [], UNIFORM[:2]))
    return items
