# -*- coding: utf-8 -*-
"""
C04 - automatic semicolon insertion follows ECMA-262 7.9 exactly.

(a) E1 over the ASI alphabet (terminator-sensitive tokens x line breaks x
    comments); (b) every program of S2(k) written with explicit semicolons x
    every subset of its statement terminators x every layout kind put in
    place of the removed `;`; (c) each restricted production x each layout.
Oracle: R2 (7.9.1 literally) in lock-step; and the property's second
sentence: whenever R2 reads the reduced text as the same tree as the fully
terminated text, so must the implementation.
"""
from __future__ import unicode_literals

import collections
import itertools

from mc import impl as I
from mc import judge
from mc.explore import trie
from mc.pool import pmap
from mc.refmodel import parser as R2
from mc.refmodel import tree as R3
from mc.report import VioBag
from mc.space import alphabets as AB
from mc.space import grammar as G
from mc.space import layouts as L


def layout_classes(text, ref):
    """sorted set of non-trivial gap classes between R2 tokens"""
    toks = list(getattr(ref, 'tokens', ()))
    out = set()
    for a, b in zip(toks, toks[1:]):
        g = judge.gap_class(text, a.end, b.start)
        if g not in ('none', 'ws'):
            out.add(g)
    return ','.join(sorted(out)) or 'plain'


def features(ref):
    """ASI-relevant constructs present in the text (from the reference's
    token list): they name the known root causes a divergence can stem from,
    so that the same symptom without them gets a different signature"""
    toks = list(getattr(ref, 'tokens', ()))
    t2 = getattr(ref, 'tok', None)
    if t2 is not None:
        toks.append(t2)
    f = set()
    for a, b in zip(toks, toks[1:]):
        if b.type == 'punct' and b.value in ('++', '--') and b.nl_before \
                and judge.tclass(a) in judge.OPERAND_END:
            f.add('lt-before-incdec')
        if a.type == 'id' and a.value in judge.RESTRICTED_KW and \
                b.nl_before and b.type == 'punct' and b.value == ';':
            f.add('restricted-keyword-lt-semicolon')
    return ','.join(sorted(f)) or '-'


def judge_asi(text, out, ref):
    v = judge_asi0(text, out, ref)
    if v is None:
        return None
    return (v[0] + '|features=' + features(ref), v[1])


def judge_asi0(text, out, ref):
    """None or (sig, detail)"""
    if ref.verdict == 'abstain' or out.kind == 'crash':
        return None
    if ref.verdict == 'accept':
        if out.kind == 'accept':
            if out.tree == ref.neutral:
                return None
            return ('C04|tree-differs|%s' % (
                R3.diff_kind(out.tree, ref.neutral)),
                R3.first_diff(out.tree, ref.neutral))
        off = judge.impl_error_offset(text, out.msg)
        if off is None:
            ctx = 'end: %s' % judge.coarse_prev(
                judge.tclass(ref.tokens[-1]) if ref.tokens else 'NONE')
            exp = 'insert-at-end' if ref.asi and \
                ref.asi[-1] == ref.tokens[-1].end else 'none'
        else:
            ctx = judge.coarse_ctx(judge.ctx_at(text, ref, off))
            prev_end = None
            for t in ref.tokens:
                if t.start == off:
                    break
                prev_end = t.end
            exp = 'insert' if prev_end in ref.asi else 'none'
        return ('C04|impl-rejects|%s|expected=%s' % (ctx, exp), out.msg)
    if out.kind == 'accept':
        ctx = judge.coarse_ctx(judge.ctx_at(text, ref, ref.offset)) \
            if ref.tok is not None else 'lexical:' + ref.reason
        return ('C04|impl-accepts|%s|%s' % (ref.reason, ctx),
                'reference rejects at offset %d: %s' % (
                    ref.offset, ref.reason))
    return None


class Acc(object):
    def __init__(self):
        self.bag = VioBag()
        self.out = collections.Counter()
        self.cases = 0
        self.nontrivial = 0
        self.traces = 0
        self.samples = []

    def merge(self, o):
        self.bag.merge(o.bag)
        self.out.update(o.out)
        self.cases += o.cases
        self.nontrivial += o.nontrivial
        self.traces += o.traces
        if len(self.samples) < 30:
            self.samples.extend(o.samples[:2])


class Merge(object):
    def __init__(self):
        self.total = Acc()

    def new(self):
        return Acc()

    def add(self, a):
        self.total.merge(a)


def check_text(acc, text, full=None):
    """full: the neutral tree R2 gives the fully terminated text"""
    out = I.run_parse(text)
    ref = R2.parse(text)
    acc.cases += 1
    acc.out['impl=%s ref=%s' % (out.kind, ref.verdict)] += 1
    if ref.verdict != 'abstain':
        acc.traces += 1
    if ref.verdict == 'accept' and ref.asi:
        acc.nontrivial += 1
        if len(acc.samples) < 2:
            acc.samples.append({'text': text, 'inserted_at': list(ref.asi)})
    v = judge_asi(text, out, ref)
    if v is not None:
        acc.bag.add(v[0], {'text': text}, v[1])
    return out, ref


def visit(acc, text, prefix):
    out, ref = check_text(acc, text)
    idead = out.kind == 'reject' and not out.eof and \
        out.exc_type == 'ECMASyntaxError' and \
        not out.msg.startswith('Unterminated')
    rdead = ref.verdict == 'reject' and not ref.at_eof and \
        not ref.reason.startswith('lex:unterminated')
    return idead, rdead


def variants(lex, layouts, subsets='all'):
    """texts with subsets of the Term semicolons replaced by a layout"""
    terms = [i for i, l in enumerate(lex) if isinstance(l, G.Term)]
    if not terms:
        return
    if isinstance(subsets, tuple):
        subs = [subsets]
    elif subsets == 'all':
        subs = [s for k in range(1, len(terms) + 1)
                for s in itertools.combinations(terms, k)]
    else:
        subs = [(t,) for t in terms]
        if len(terms) > 1:
            subs.append(tuple(terms))
    for s in subs:
        ss = set(s)
        for name, lay in layouts:
            parts = []
            for i, l in enumerate(lex):
                if i in ss:
                    parts.append(lay)
                else:
                    parts.append(l)
                    parts.append(' ')
            yield ''.join(parts), name


RESTRICTED = [
    'return {L} a ;', 'return {L} ;', 'break {L} l ;', 'continue {L} l ;',
    'throw {L} a ;', 'a {L} ++ ;', 'a {L} ++ {L} b ;', 'a {L} -- {L} b ;',
    'a ++ {L} b ;', 'a {L} ++ b ;', 'a = b {L} ++ c ;', 'a {L} ( b ) ;',
    'a {L} [ b ] ;', 'a {L} / b / c ;', 'a {L} + b ;', 'a = b {L} c ;',
    'var a {L} b ;', 'var a = 1 {L} b ;', 'if ( a ) {L} b ;',
    'if ( a ) b {L} else c ;', 'if ( a ) {L} else c ;', 'do a {L} while ( b ) {L} c ;',
    'do a ; while ( b ) {L} c ;', 'do a ; while ( b ) c ;',
    'for ( a {L} b ; c ) d ;', 'for ( a ; b {L} ) c ;', 'for ( {L} ; {L} ) c ;',
    'for ( a {L} ; b {L} ; c {L} ) d {L}', 'while ( a ) {L}', '{ a {L} b {L} }',
    '{ a {L} } b {L}', 'function f ( ) { return {L} a {L} } {L} f ( )',
    'a {L} b {L} c', 'a ; {L} ; b', 'debugger {L} debugger',
    'x = function ( ) { } {L} ( a ) ;', 'x = { } {L} y = 1',
    'l : {L} a {L} b', 'switch ( a ) { case 1 : b {L} c {L} default : d {L} }',
    'try { a {L} } catch ( e ) { b {L} } finally { c {L} }',
    'var a = 1 {L} var b = 2 {L}', 'a = 1 {L} + 2', 'a {L} = 1',
    'a {L} . b', 'a . {L} b', 'new {L} a', 'typeof {L} a', '! {L} a',
    '++ {L} a', '- {L} a', 'a ? {L} b : {L} c', 'a , {L} b',
    'if ( a ) {L} { b } {L} else {L} { c }', 'return a {L} + b',
    'return ( {L} a {L} )', 'throw a {L} + b ;', 'break {L} ; a',
    'continue {L} ;', 'return {L} ; a', '{L} a', 'a {L}',
]


def run(tier, rep):
    m = Merge()
    # (a) E1 over the ASI alphabets
    plans = [('A_ASI', AB.A_ASI, 3 if tier == 'quick' else 4),
             ('A_ASI_CORE', AB.A_ASI_CORE, 3 if tier == 'quick' else 5)]
    for name, alpha, depth in plans:
        st = trie.explore(alpha, depth, visit, m)
        rep.add(states=st['states'], transitions=st['transitions'])
        rep.space('S1(%s,%d)' % (name, depth), lexemes=len(alpha),
                  per_depth=st['per_depth'])
    # (b) subsets of terminators x layout kinds
    # programs on which implementation and reference already disagree when
    # fully terminated are C03's business and are skipped here
    items = []
    for lex in G.programs(1):
        items.append((lex, L.LAYOUTS + [('SP', ' ')], 'all'))
    quickl = [x for x in L.LAYOUTS if x[0] in ('LF', 'ML-COMMENT',
                                               'LF-COMMENT', 'LS-COMMENT')]
    lays2 = quickl if tier == 'quick' else L.LAYOUTS
    singles = list(G.chains(1, 'S')) + [
        G.as_statement(b) for b in G.chains(1, 'E')]
    for x in singles:
        xt = [i for i, l in enumerate(x.lex) if isinstance(l, G.Term)]
        if not xt:
            continue
        for y in singles:
            # the boundary between two statements: drop the last terminator
            # of the first one
            items.append((x.lex + y.lex, lays2, (xt[-1],)))
    for lex in G.chain_programs(2):
        items.append((lex, lays2, 'singles' if tier == 'quick' else 'all'))
    if tier != 'quick':
        for lex in G.chain_programs(3, G.CORE_FORMS):
            items.append((lex, quickl, 'singles'))

    def work(chunk, idx):
        acc = Acc()
        for lex, lays, subs in chunk:
            full = G.render(lex)
            o = I.run_parse(full)
            r = R2.parse(full)
            if not (o.kind == 'accept' and r.verdict == 'accept' and
                    o.tree == r.neutral):
                acc.out['skipped: fully terminated text already disputed '
                        '(C03)'] += 1
                continue
            for text, name in variants(lex, lays, subs):
                check_text(acc, text)
        return acc
    before = m.total.cases
    for acc in pmap(work, items):
        m.add(acc)
    nb = m.total.cases - before
    rep.add(states=len(items), transitions=nb)
    rep.space('terminator-subsets', programs=len(items), texts=nb)
    # (c) restricted productions x layouts
    texts = set()
    lays = [('NONE', ' ')] + L.LAYOUTS
    for tpl in RESTRICTED:
        n = tpl.count('{L}')
        for combo in itertools.product(lays, repeat=min(n, 2)):
            t = tpl
            for k in range(n):
                t = t.replace('{L}', combo[min(k, len(combo) - 1)][1], 1)
            texts.add(t)
    texts = sorted(texts)

    def work2(chunk, idx):
        acc = Acc()
        for t in chunk:
            check_text(acc, t)
        return acc
    for acc in pmap(work2, texts):
        m.add(acc)
    rep.add(states=len(texts), transitions=len(texts))
    rep.space('restricted-productions', templates=len(RESTRICTED),
              texts=len(texts))
    t = m.total
    rep.bag.merge(t.bag)
    rep.cov['traces_validated_against_impl'] = t.traces
    rep.cov['evaluations'] = t.cases
    rep.cov['distinct_nontrivial'] = t.nontrivial
    rep.outcome(t.out)
    rep.sample(t.samples)
    rep.cov['rule'] = (
        'E1 over the ASI alphabets; every S2 program x subsets of its '
        'statement terminators x layout kinds; restricted-production '
        'templates x layouts.  Each text is parsed by the implementation and '
        'by R2 (7.9.1 literally).  non-trivial = R2 accepts with at least '
        'one inserted semicolon')
    rep.cov['bounds'] = dict((n, d) for n, a, d in plans)
    rep.assumptions += ['R2 implements 7.9.1 literally (offending token '
                        'after a line terminator, before }, at end of input; '
                        'restricted productions; no insertion in for '
                        'headers or yielding an empty statement)']


def replay(w):
    acc = Acc()
    check_text(acc, w['text'])
    return [{'sig': s, 'detail': v[2]} for s, v in acc.bag.d.items()]
