# -*- coding: utf-8 -*-
"""C02 - minified output parses back; no token fusion; only ASI-restorable
semicolons dropped."""
from __future__ import unicode_literals

from mc.checks import printers as P
from mc.space import grammar as G


def run(tier, rep):
    items = [t for t, grp in P.texts_for(tier)]
    if tier == 'thorough':
        seen = set(items)
        for lex in G.chain_programs(3, G.CORE_FORMS):
            t = G.render(lex)
            if t not in seen:
                seen.add(t)
                items.append(t)
    total = P.run_cases(items, lambda acc, it: P.case_c02(acc, it))
    rep.space('programs', count=len(items))
    rep.cov['bounds'] = {'S2_k': 2 if tier == 'quick' else 3,
                         'drop_semi': [False, True]}
    P.finish(rep, total, (
        'every text of S0, S2(k) and the adjacent-leaf product (every '
        'grammatical slot pair x catalogue of leaf spellings) x drop_semi in '
        '{off,on}; the minified text is read back by the implementation and '
        'by R2 and compared modulo the two normalisations the property '
        'grants; every emitted fragment must be exactly one R1 token; '
        'non-trivial = the implementation accepts the input'))
    rep.assumptions += [
        'reference parser R2 stands for "any conforming ES5 parser"',
        'name obfuscation is off here (C07 owns it)']


def replay(w):
    acc = P.Acc()
    P.case_c02(acc, w['text'])
    return [{'sig': s, 'detail': v[2]} for s, v in acc.bag.d.items()
            if ('|drop|' in s) == bool(w.get('drop_semi')) or
            '|print-raises|' in s]
