# -*- coding: utf-8 -*-
"""
C03 - the parser accepts exactly the ES5 grammar and builds the dictated tree.

E1 (prefix-trie BFS over lexeme alphabets) + S0 corpus + E2 derivations +
E3 single-lexeme mutants, with the reference parser R2 in lock-step.
"""
from __future__ import unicode_literals

import collections

from mc import impl as I
from mc import judge
from mc.explore import trie
from mc.pool import pmap
from mc.refmodel import parser as R2
from mc.report import VioBag
from mc.space import alphabets as AB


class Acc(object):
    def __init__(self):
        self.bag = VioBag()
        self.out = collections.Counter()
        self.nontrivial = 0
        self.traces = 0
        self.samples = []


class Merge(object):
    def __init__(self):
        self.total = Acc()

    def new(self):
        return Acc()

    def add(self, a):
        t = self.total
        t.bag.merge(a.bag)
        t.out.update(a.out)
        t.nontrivial += a.nontrivial
        t.traces += a.traces
        if len(t.samples) < 40:
            t.samples.extend(a.samples[:3])


def ref_dead(ref):
    return ref.verdict == 'reject' and not ref.at_eof and \
        not ref.reason.startswith('lex:unterminated')


def impl_dead(out):
    return out.kind == 'reject' and not out.eof and \
        out.exc_type == 'ECMASyntaxError' and \
        not out.msg.startswith('Unterminated')


def check_text(acc, text, tag='text'):
    out = I.run_parse(text)
    ref = R2.parse(text)
    acc.out[(out.kind, ref.verdict)] += 1
    if ref.verdict != 'abstain':
        acc.traces += 1
    if ref.verdict == 'accept' or out.kind == 'accept':
        acc.nontrivial += 1
        if len(acc.samples) < 3:
            acc.samples.append({'text': text, 'impl': out.kind,
                                'reference': ref.verdict})
    v = judge.judge_c03(text, out, ref)
    if v is not None:
        acc.bag.add(v[0], {'text': text}, v[1])
    return out, ref


def visit(acc, text, prefix):
    out, ref = check_text(acc, text)
    return impl_dead(out), ref_dead(ref)


LEXEME_CATALOGUE = [
    # numbers
    '0', '0.', '.0', '0.0', '1e+1', '1E-1', '1.e1', '.5e0', '0x0', '0XaF',
    '123456789012345678901234567890', '1e1000', '00', '08', '0x', '1e',
    '1.2.3', '1a', '0xg', '.e1',
    # strings
    "'\\''", "'\\0'", "'\\x41'", "'\\u0041'", "'\\a'", "'\\ '", "'\\\n'",
    '"\\\'"', "'\\8'", "'\\01'", "'\\x4'", "'\\u004'", "'a\u2028b'",
    "'a\tb'", "'\\\r\n'", "'\\\u2028'", '"\\""', "''", '""',
    # regular expressions
    '/[/]/', '/\\//', '/a/gim', '/[\\]]/', '/(?:)/', '/=/', '/a/g1',
    '/[/', '/a\\/', '/\\\n/', '/a/ /b/',
    # words
    'true', 'false', 'null', 'this', 'undefined', 'NaN',
]
IDENTIFIER_CATALOGUE = [
    'a', '$', '_', '$1', 'a1', 'a1\xe9', '\xe9a', 'a\u0301', '\u03c0',
    'a\u200d', 'a\u200cb', '\\u0061bc', 'a\\u0062', 'let', 'yield', 'static',
    'implements', 'interface', 'package', 'private', 'protected', 'public',
    'class', 'enum', 'super', 'of', 'async', 'await', 'get', 'set', 'eval',
    'arguments', 'If', 'IF', '\u0131f', 'el\u017fe', 'a\ufeffb', '\u2118',
    'a\xb7b',
]


def production_coverage(texts):
    """
    Coverage accounting (evidence only, never a verdict): which grammar
    actions, distinguished by the length of the production they reduced, ran
    at least once over the accepted programs.  Observed with sys.setprofile
    (the p_* methods must not be wrapped: ply orders rules - and thereby
    resolves reduce/reduce conflicts - by their line numbers).
    """
    import sys
    from calmjs.parse.parsers import es5

    def work(chunk, idx):
        seen = set()

        def prof(frame, event, arg):
            if event == 'call':
                name = frame.f_code.co_name
                if name.startswith('p_') and name != 'p_error':
                    p = frame.f_locals.get('p')
                    try:
                        seen.add((name, len(p)))
                    except Exception:
                        seen.add((name, -1))
        for t in chunk:
            sys.setprofile(prof)
            try:
                es5.parse(t)
            except Exception:
                pass
            finally:
                sys.setprofile(None)
        return seen
    seen = set()
    for s_ in pmap(work, texts):
        seen |= s_
    # the alternatives each action can reduce, from the docstrings
    expected = set()
    for name in dir(es5.Parser):
        if not name.startswith('p_') or name == 'p_error':
            continue
        doc = getattr(es5.Parser, name).__doc__ or ''
        body = doc.replace('\\\n', ' ')
        if ':' not in body:
            continue
        head, alts = body.split(':', 1)
        for alt in alts.split('|'):
            n = len(alt.split())
            expected.add((name, n + 1))
    missing = sorted(expected - seen)
    return {'actions_x_production_length_expected': len(expected),
            'exercised': len(expected & seen),
            'never_exercised': ['%s/%d' % m_ for m_ in missing][:80],
            'texts': len(texts)}


def run(tier, rep):
    if tier == 'quick':
        plans = [('A', AB.A, 3), ('A_EXPR', AB.A_EXPR, 4),
                 ('A_STMT', AB.A_STMT, 4)]
    else:
        plans = [('A', AB.A, 4), ('A_EXPR', AB.A_EXPR, 5),
                 ('A_STMT', AB.A_STMT, 5)]
    m = Merge()
    for name, alpha, depth in plans:
        st = trie.explore(alpha, depth, visit, m)
        rep.add(states=st['states'], transitions=st['transitions'])
        rep.space('S1(%s,%d)' % (name, depth), lexemes=len(alpha),
                  per_depth=st['per_depth'])

    # S0: the repository's own manifests
    from mc.space.corpus import harvest
    corpus = harvest()

    def work(items, idx):
        acc = Acc()
        for t in items:
            check_text(acc, t)
        return acc
    for acc in pmap(work, corpus):
        m.add(acc)
    rep.add(states=len(corpus), transitions=len(corpus))
    rep.space('S0', texts=len(corpus))

    # a catalogue of single lexemes whose spelling exercises the lexical
    # grammar (7.6 identifiers, 7.8.3 numbers, 7.8.4 strings, 7.8.5 regular
    # expressions), each in a few syntactic contexts
    cat = []
    for lx in LEXEME_CATALOGUE:
        for ctx in ('%s ;', 'x = %s ;', '%s . p ;', 'x . p ( %s ) ;',
                    '%s + %s ;', 'x = { p : %s } ;'):
            cat.append(ctx.replace('%s', lx))
    for lx in IDENTIFIER_CATALOGUE:
        for ctx in ('%s ;', 'var %s = 1 ;', 'x . %s ;', 'function %s ( ) { }',
                    'x = { %s : 1 } ;', '%s : x ;', '%s ( %s ) ;',
                    'x = { get %s ( ) { } } ;'):
            cat.append(ctx.replace('%s', lx))
    # reserved words as property names (11.1.5, 11.2.1: IdentifierName),
    # followed by what makes the next `/` a division or a regular expression
    from mc.refmodel import lexer as R1
    for w in sorted(R1.RESERVED):
        for ctx in ('x . %s ;', 'x . %s / 2 ;', '( x . %s ) / 2 ;',
                    '[ x . %s ] / 2 ;', 'x . %s ++ / 2 ;',
                    'x . %s ( ) / 2 ;', '{ x . %s } / 2 / . p ;',
                    'x = { %s : 1 } / 2 ;', 'x . %s \n / 2 / g ;',
                    'x . %s . %s ;', 'x = { %s : 1 , get %s ( ) { } } ;',
                    'if ( x . %s ) / 2 / . test ( y ) ;',
                    'while ( x . %s ) / 2 / ;', 'x . %s ? 1 : 2 ;',
                    'x . %s \n y ;', 'x [ x . %s ] ( x . %s ) ;',
                    'f ( x . %s ) / 2 ;', 'new x . %s ( ) / 2 ;'):
            cat.append(ctx.replace('%s', w))
    cat = sorted(set(cat))
    for acc in pmap(work, cat):
        m.add(acc)
    rep.add(states=len(cat), transitions=len(cat))
    rep.space('lexeme-catalogue', lexemes=len(LEXEME_CATALOGUE),
              identifiers=len(IDENTIFIER_CATALOGUE), texts=len(cat))

    # every code point as the first and as a later character of a word
    # (7.6: the identifier characters are a property of single characters)
    hi = 0x10000 if tier == 'quick' else 0x110000
    cps = []
    for c in range(hi):
        if 0xD800 <= c <= 0xDFFF:
            continue
        ch = chr(c)
        cps += [ch + ' ;', 'a' + ch + ' ;']
        if tier != 'quick' or c < 0x3000:
            cps += ['a' + ch + 'b ;', 'x . ' + ch + ' ;']
    for acc in pmap(work, cps):
        m.add(acc)
    rep.add(states=len(cps), transitions=len(cps))
    rep.space('code-points', upto=hex(hi), texts=len(cps))

    # layout: every one-constructor program with one gap at a time filled
    # by each layout kind (comments before / after / holding the line break)
    from mc.space import layouts as LAY
    from mc.space import grammar as G0
    lay_texts = []
    for lex in G0.programs(1):
        for name, sep in LAY.LAYOUTS:
            if name == 'SP':
                continue
            for i in range(1, len(lex)):
                lay_texts.append(' '.join(lex[:i]) + sep + ' '.join(lex[i:]))
    lay_texts = sorted(set(lay_texts))
    for acc in pmap(work, lay_texts):
        m.add(acc)
    rep.add(states=len(lay_texts), transitions=len(lay_texts))
    rep.space('layouts', kinds=[n for n, s_ in LAY.LAYOUTS if n != 'SP'],
              texts=len(lay_texts))

    # S2 / S3: derivations and their single-lexeme mutants
    try:
        from mc.space import grammar as G
    except ImportError:
        G = None
    if G is not None:
        progs = G.programs(2)
        if tier != 'quick':
            progs = progs + [l for l in G.chain_programs(3, G.CORE_FORMS)]

        def work2(items, idx):
            acc = Acc()
            n = 0
            for lex in items:
                check_text(acc, G.render(lex))
                n += 1
            return acc, n
        for acc, n in pmap(work2, progs):
            m.add(acc)
        rep.add(states=len(progs), transitions=len(progs))
        rep.space('S2', programs=len(progs))
        if tier == 'quick':
            base, alpha = G.programs(1), AB.A
        else:
            base = G.programs(1) + G.chain_programs(2, G.CORE_FORMS)
            alpha = ['a', '1', '/', '+', '++', '=', '(', ')', '{', '}', ';',
                     ',', 'in', 'function', 'var', ':']
        muts = list(G.mutants(base, alpha))
        if tier != 'quick':
            muts += list(G.mutants(G.programs(1), AB.A))
            muts = sorted(set(muts))

        def work3(items, idx):
            acc = Acc()
            for lex in items:
                check_text(acc, G.render(lex))
            return acc
        for acc in pmap(work3, muts):
            m.add(acc)
        rep.add(states=len(muts), transitions=len(muts))
        rep.space('S3', mutants=len(muts), base_programs=len(base))

    if tier != 'quick' and G is not None:
        rep.cov['grammar_coverage'] = production_coverage(
            [G.render(l) for l in G.programs(2)] + list(corpus))
    t = m.total
    rep.bag.merge(t.bag)
    rep.cov['traces_validated_against_impl'] = t.traces
    rep.cov['evaluations'] = rep.cov['transitions']
    rep.cov['distinct_nontrivial'] = t.nontrivial
    rep.outcome({'impl=%s ref=%s' % k: v for k, v in t.out.items()})
    rep.sample(t.samples)
    rep.cov['rule'] = (
        'E1: every lexeme string up to the depth bound reachable through '
        'prefixes not dead for both parsers; S0: every string literal of the '
        'repo test modules; S2/S3: every derivation with <= k constructors '
        'and every single-lexeme edit of it.  Each text is parsed by the '
        'implementation and by the reference parser R2.  Non-trivial = at '
        'least one side accepts.  Texts are distinct by construction within '
        'a space.')
    rep.cov['bounds'] = {n: d for n, a, d in plans}
    rep.assumptions += [
        'R1/R2 (mc/refmodel/lexer.py, parser.py) implement ECMA-262 5.1 '
        'clauses 7, 11-14 and 7.9 correctly; cross-validated against acorn '
        'at development time',
        'single-space rendering of lexeme strings; other layouts are '
        'explored by C04/C05/C13',
    ]


def replay(w):
    acc = Acc()
    check_text(acc, w['text'])
    return [{'sig': s, 'detail': v[2]} for s, v in acc.bag.d.items()]
