# -*- coding: utf-8 -*-
"""
C03 - the parser accepts exactly the ES5 grammar and builds the dictated tree.

E1 (prefix-trie BFS over lexeme alphabets) + S0 corpus + E2 derivations +
E3 single-lexeme mutants, with the reference parser R2 in lock-step.
"""
from __future__ import unicode_literals

import collections

from mc import impl as I
from mc import judge
from mc.explore import trie
from mc.pool import pmap
from mc.refmodel import parser as R2
from mc.report import VioBag
from mc.space import alphabets as AB


class Acc(object):
    def __init__(self):
        self.bag = VioBag()
        self.out = collections.Counter()
        self.nontrivial = 0
        self.traces = 0
        self.samples = []


class Merge(object):
    def __init__(self):
        self.total = Acc()

    def new(self):
        return Acc()

    def add(self, a):
        t = self.total
        t.bag.merge(a.bag)
        t.out.update(a.out)
        t.nontrivial += a.nontrivial
        t.traces += a.traces
        if len(t.samples) < 40:
            t.samples.extend(a.samples[:3])


def ref_dead(ref):
    return ref.verdict == 'reject' and not ref.at_eof and \
        not ref.reason.startswith('lex:unterminated')


def impl_dead(out):
    return out.kind == 'reject' and not out.eof and \
        out.exc_type == 'ECMASyntaxError' and \
        not out.msg.startswith('Unterminated')


def check_text(acc, text, tag='text'):
    out = I.run_parse(text)
    ref = R2.parse(text)
    acc.out[(out.kind, ref.verdict)] += 1
    if ref.verdict != 'abstain':
        acc.traces += 1
    if ref.verdict == 'accept' or out.kind == 'accept':
        acc.nontrivial += 1
        if len(acc.samples) < 3:
            acc.samples.append({'text': text, 'impl': out.kind,
                                'reference': ref.verdict})
    v = judge.judge_c03(text, out, ref)
    if v is not None:
        acc.bag.add(v[0], {'text': text}, v[1])
    return out, ref


def visit(acc, text, prefix):
    out, ref = check_text(acc, text)
    return impl_dead(out), ref_dead(ref)


def run(tier, rep):
    if tier == 'quick':
        plans = [('A', AB.A, 3), ('A_EXPR', AB.A_EXPR, 4),
                 ('A_STMT', AB.A_STMT, 4)]
    else:
        plans = [('A', AB.A, 4), ('A_EXPR', AB.A_EXPR, 5),
                 ('A_STMT', AB.A_STMT, 5)]
    m = Merge()
    for name, alpha, depth in plans:
        st = trie.explore(alpha, depth, visit, m)
        rep.add(states=st['states'], transitions=st['transitions'])
        rep.space('S1(%s,%d)' % (name, depth), lexemes=len(alpha),
                  per_depth=st['per_depth'])

    # S0: the repository's own manifests
    from mc.space.corpus import harvest
    corpus = harvest()

    def work(items, idx):
        acc = Acc()
        for t in items:
            check_text(acc, t)
        return acc
    for acc in pmap(work, corpus):
        m.add(acc)
    rep.add(states=len(corpus), transitions=len(corpus))
    rep.space('S0', texts=len(corpus))

    # S2 / S3: derivations and their single-lexeme mutants
    try:
        from mc.space import grammar as G
    except ImportError:
        G = None
    if G is not None:
        progs = G.programs(2)
        if tier != 'quick':
            progs = progs + [l for l in G.chain_programs(3, G.CORE_FORMS)]

        def work2(items, idx):
            acc = Acc()
            n = 0
            for lex in items:
                check_text(acc, G.render(lex))
                n += 1
            return acc, n
        for acc, n in pmap(work2, progs):
            m.add(acc)
        rep.add(states=len(progs), transitions=len(progs))
        rep.space('S2', programs=len(progs))
        if tier == 'quick':
            base, alpha = G.programs(1), AB.A
        else:
            base = G.programs(1) + G.chain_programs(2, G.CORE_FORMS)
            alpha = ['a', '1', '/', '+', '++', '=', '(', ')', '{', '}', ';',
                     ',', 'in', 'function', 'var', ':']
        muts = list(G.mutants(base, alpha))
        if tier != 'quick':
            muts += list(G.mutants(G.programs(1), AB.A))
            muts = sorted(set(muts))

        def work3(items, idx):
            acc = Acc()
            for lex in items:
                check_text(acc, G.render(lex))
            return acc
        for acc in pmap(work3, muts):
            m.add(acc)
        rep.add(states=len(muts), transitions=len(muts))
        rep.space('S3', mutants=len(muts), base_programs=len(base))

    t = m.total
    rep.bag.merge(t.bag)
    rep.cov['traces_validated_against_impl'] = t.traces
    rep.cov['evaluations'] = rep.cov['transitions']
    rep.cov['distinct_nontrivial'] = t.nontrivial
    rep.outcome({'impl=%s ref=%s' % k: v for k, v in t.out.items()})
    rep.sample(t.samples)
    rep.cov['rule'] = (
        'E1: every lexeme string up to the depth bound reachable through '
        'prefixes not dead for both parsers; S0: every string literal of the '
        'repo test modules; S2/S3: every derivation with <= k constructors '
        'and every single-lexeme edit of it.  Each text is parsed by the '
        'implementation and by the reference parser R2.  Non-trivial = at '
        'least one side accepts.  Texts are distinct by construction within '
        'a space.')
    rep.cov['bounds'] = {n: d for n, a, d in plans}
    rep.assumptions += [
        'R1/R2 (mc/refmodel/lexer.py, parser.py) implement ECMA-262 5.1 '
        'clauses 7, 11-14 and 7.9 correctly; cross-validated against acorn '
        'at development time',
        'single-space rendering of lexeme strings; other layouts are '
        'explored by C04/C05/C13',
    ]


def replay(w):
    acc = Acc()
    check_text(acc, w['text'])
    return [{'sig': s, 'detail': v[2]} for s, v in acc.bag.d.items()]
