# -*- coding: utf-8 -*-
"""
C12 - any input either parses or raises the ECMAScript syntax error, only;
positions quoted in the message designate the quoted text.
"""
from __future__ import unicode_literals

import ast
import collections
import itertools
import re
import traceback

from mc.pool import pmap, call_with_timeout, CaseTimeout
from mc.refmodel.lexer import LineIndex
from mc.report import VioBag
from mc.space import alphabets as AB
from mc.space import chars as CH
from mc.space import grammar as G

QUOTED_AT = re.compile(
    r'''('(?:[^'\\]|\\.)*'|"(?:[^"\\]|\\.)*") at (\d+):(\d+)''')
WATCHDOG = 10.0
# once a worker process has seen this many confirmed time-outs, it stops
# executing further cases (each costs 40 s of CPU): the run is then reported
# as capped, not exhaustive - it only happens on a tree that violates C12
TIMEOUT_CAP = 4
_TIMEOUTS = {'n': 0}


def where_of(e):
    tb = traceback.extract_tb(e.__traceback__)
    for fr in reversed(tb):
        if '/calmjs/parse/' in fr.filename:
            return '%s:%s' % (fr.filename.split('/calmjs/parse/')[-1],
                              fr.name)
    for fr in reversed(tb):
        if '/ply/' in fr.filename:
            return 'ply/%s:%s' % (fr.filename.split('/ply/')[-1], fr.name)
    return '?'


RAW_REGEX = re.compile(
    r"^Error parsing regular expression '(.*)' at (\d+):(\d+)$", re.S)


def quoted_positions(msg):
    """[(text, line, col, truncated)] for every quoted text of a message"""
    m = RAW_REGEX.match(msg)
    if m:
        # this message embeds the raw text between plain quotes (not a repr)
        return [(m.group(1), int(m.group(2)), int(m.group(3)), False)]
    out = []
    for m in QUOTED_AT.finditer(msg):
        try:
            q = ast.literal_eval(m.group(1))
        except Exception:
            continue
        trunc = msg.startswith('Unterminated string literal') and \
            q.endswith('...')
        out.append((q, int(m.group(2)), int(m.group(3)), trunc))
    return out


def check_message(text, msg, li=None):
    """position clause; returns None or (sigpart, detail)"""
    li = li or LineIndex(text)
    kind = msg.split(' ')[0]
    for q, line, col, trunc in quoted_positions(msg):
        off = li.offset(line, col)
        if off is None or off < 0 or col < 1 or off > len(text):
            return ('position-out-of-range|%s' % kind,
                    '%r at %d:%d in %r' % (q, line, col, msg))
        ok = text[off:].startswith(q)
        if not ok and trunc:
            # the message shows value[:16].strip() + '...'
            ok = text[off:].startswith(q[:-3])
        if not ok:
            lt = any(c in text[:off + len(q)] for c in '\u2028\u2029')
            return ('quoted-text-not-at-position|%s|%s' % (
                kind, 'unicode-line-terminator-before' if lt else 'plain'),
                '%r not at %d:%d (offset %d) of %r; message %r' % (
                    q, line, col, off, text, msg))
    return None


def run_one(text, mode):
    """mode 'parse' / 'parse-comments' / 'lex'.  Returns (outcome, exc)"""
    from calmjs.parse.exceptions import ECMASyntaxError
    try:
        if mode == 'lex':
            from calmjs.parse.lexers.es5 import Lexer
            lx = Lexer(yield_comments=True)
            lx.input(text)
            n = 0
            for tok in lx:
                n += 1
                if n > 4 * len(text) + 16:
                    return ('runaway-token-stream', None)
            return ('ok', None)
        from calmjs.parse.parsers.es5 import parse
        parse(text, with_comments=(mode == 'parse-comments'))
        return ('ok', None)
    except ECMASyntaxError as e:
        return ('syntax-error', e)
    except RecursionError as e:
        return ('recursion', e)
    except Exception as e:
        return ('other', e)


def check_text(acc, text, modes=('parse', 'lex')):
    for mode in modes:
        acc.cases += 1
        if _TIMEOUTS['n'] >= TIMEOUT_CAP:
            acc.out['not-run:time-out-cap-reached'] += 1
            continue
        try:
            try:
                kind, e = call_with_timeout(WATCHDOG, run_one, text, mode)
            except CaseTimeout:
                # confirm with three times the CPU budget before believing it
                kind, e = call_with_timeout(3 * WATCHDOG, run_one, text, mode)
        except CaseTimeout:
            _TIMEOUTS['n'] += 1
            acc.bag.add('C12|%s|does-not-terminate' % mode,
                        {'text': text, 'mode': mode},
                        'no result within %s s of CPU time (twice)' % (3 * WATCHDOG))
            continue
        acc.out['%s:%s' % (mode, kind if kind != 'other'
                           else type(e).__name__)] += 1
        if kind == 'ok':
            continue
        acc.nontrivial += 1
        if kind == 'syntax-error':
            r = check_message(text, str(e))
            if r:
                acc.bag.add('C12|%s|%s' % (mode, r[0]),
                            {'text': text, 'mode': mode}, r[1])
        elif kind == 'recursion':
            if len(text) < 200:
                acc.bag.add('C12|%s|raises|RecursionError' % mode,
                            {'text': text, 'mode': mode}, repr(e))
        elif kind == 'runaway-token-stream':
            acc.bag.add('C12|%s|runaway-token-stream' % mode,
                        {'text': text, 'mode': mode}, '')
        else:
            acc.bag.add('C12|%s|raises|%s|%s' % (
                mode, type(e).__name__, where_of(e)),
                {'text': text, 'mode': mode}, repr(e)[:200])


class Acc(object):
    def __init__(self):
        self.bag = VioBag()
        self.out = collections.Counter()
        self.cases = 0
        self.nontrivial = 0

    def merge(self, o):
        self.bag.merge(o.bag)
        self.out.update(o.out)
        self.cases += o.cases
        self.nontrivial += o.nontrivial


def run_texts(texts, modes):
    def work(chunk, idx):
        acc = Acc()
        for t in chunk:
            check_text(acc, t, modes)
        return acc
    total = Acc()
    for a in pmap(work, texts):
        total.merge(a)
    return total


CATASTROPHIC = ["'\\8'", "'abc\\", '/*', '#', "'x", '/[/', '"\\x"', '\x00',
                '/', '\\', "'\\u12'", '/a\\']


PUMP_BUDGET = 2.0
PUMP_WIDE = ['\\', '0', '1', '8', 'x', 'u', 'a', '"', "'", '/', '*', '[', ']',
             '(', ')', '{', '\n', ' ', '+', '.', 'e', '$', ',']
PUMP_CORE = ['\\', '0', '7', 'x', 'a', '/', '*', '[', '\n', ' ']
PUMP_PRE = ['', '"', "'", '/', '/*', '//', 'a=', '/[', '0', '.', 'a=/',
            '"\\', 'x/']
PUMP_SUF = ['', '"', "'", '/', '*/', '\n', ';']


def pumped_texts(tier, length):
    units = set()
    for k in (1, 2):
        for t in itertools.product(PUMP_WIDE, repeat=k):
            units.add(''.join(t))
    for t in itertools.product(
            PUMP_WIDE if tier != 'quick' else PUMP_CORE, repeat=3):
        units.add(''.join(t))
    if tier != 'quick':
        for t in itertools.product(PUMP_CORE[:6], repeat=4):
            units.add(''.join(t))
    out = []
    for u in sorted(units):
        # a unit that is a power of a shorter one repeats that one's inputs
        if any(u == u[:d] * (len(u) // d) for d in range(1, len(u))
               if len(u) % d == 0):
            continue
        for pre in PUMP_PRE:
            body = pre + u * ((length - len(pre)) // len(u))
            for suf in PUMP_SUF:
                out.append((body + suf, pre, suf))
    return out


def run_pumped(texts):
    """parse() of each text within PUMP_BUDGET seconds of CPU time"""
    def work(chunk, idx):
        acc = Acc()
        for t, pre, suf in chunk:
            acc.cases += 1
            if _TIMEOUTS['n'] >= 4 * TIMEOUT_CAP:
                acc.out['not-run:time-out-cap-reached'] += 1
                continue
            try:
                try:
                    kind, e = call_with_timeout(PUMP_BUDGET, run_one, t,
                                                'parse')
                except CaseTimeout:
                    kind, e = call_with_timeout(3 * PUMP_BUDGET, run_one, t,
                                                'parse')
            except CaseTimeout:
                _TIMEOUTS['n'] += 1
                acc.bag.add(
                    'C12|parse|running-time-explodes|prefix=%s|suffix=%s' % (
                        pre.replace('\n', 'LF') or 'none',
                        suf.replace('\n', 'LF') or 'none'),
                    {'text': t, 'mode': 'parse'},
                    '%d characters: no result within %s s of CPU time '
                    '(normal: milliseconds)' % (len(t), 3 * PUMP_BUDGET))
                continue
            acc.out['parse:%s' % (kind if kind != 'other'
                                  else type(e).__name__)] += 1
            if kind == 'ok':
                continue
            acc.nontrivial += 1
            if kind == 'syntax-error':
                r = check_message(t, str(e))
                if r:
                    acc.bag.add('C12|parse|%s' % r[0],
                                {'text': t, 'mode': 'parse'}, r[1])
            elif kind == 'recursion':
                acc.bag.add('C12|parse|raises|RecursionError|pumped',
                            {'text': t, 'mode': 'parse'}, repr(e))
            elif kind == 'runaway-token-stream':
                acc.bag.add('C12|parse|runaway-token-stream',
                            {'text': t, 'mode': 'parse'}, '')
            else:
                acc.bag.add('C12|parse|raises|%s|%s' % (
                    type(e).__name__, where_of(e)),
                    {'text': t, 'mode': 'parse'}, repr(e)[:200])
        return acc
    total = Acc()
    for a in pmap(work, texts):
        total.merge(a)
    return total


def dead_prefixes(alphabet, depth):
    """minimal dead prefixes of S1 (implementation view) + their parents"""
    from mc import impl as I
    from mc.explore import trie
    layer = [()]
    dead = []
    for d in range(1, depth + 1):
        cands = [p + (i,) for p in layer for i in range(len(alphabet))]

        def work(items, idx):
            out = []
            for p in items:
                o = I.run_parse(trie.render(alphabet, p))
                out.append(o.kind == 'reject' and not o.eof)
            return out
        res = pmap(work, cands)
        n = len(res)
        nxt = []
        for i, flags in enumerate(res):
            for p, f in zip(cands[i::n], flags):
                (dead if f else nxt).append(p)
        layer = sorted(nxt)
    return sorted(dead), layer


def run(tier, rep):
    from mc.explore import trie
    total = Acc()
    # (1) character strings
    nstr = {}
    for purpose, modes in (('parse', ('parse',)), ('lex', ('lex',))):
        # bare lexer iteration over the big character spaces is C06's run;
        # here the lexer-only pass keeps to the 'parse' sized spaces
        sp, tasks = CH.string_tasks(tier, 'parse' if tier != 'quick'
                                    else purpose)

        def work_tasks(chunk, idx, sp=sp, modes=modes):
            acc = Acc()
            for task in chunk:
                for t in CH.strings_of_task(sp, task):
                    check_text(acc, t, modes)
            return acc
        n0 = total.cases
        for a in pmap(work_tasks, tasks):
            total.merge(a)
        nstr[purpose] = total.cases - n0
        rep.space('sigma-char-' + purpose, strings=nstr[purpose],
                  spaces=[(n, len(a), k) for n, a, k in sp])
    strs = list(CH.strings_of_task(sp, tasks[len(tasks) // 2]))[:9] or ['a']
    # (2) truncations and single-character corruptions of S2 programs
    base = [G.render(l) for l in G.programs(1)]
    muts = set()
    for s in base:
        for i in range(len(s) + 1):
            muts.add(s[:i])
        for i in range(len(s)):
            for c in (CH.CORRUPT if tier == 'quick' else CH.SIGMA):
                muts.add(s[:i] + c + s[i + 1:])
                if tier == 'thorough':
                    muts.add(s[:i] + c + s[i:])
    if tier == 'thorough':
        # a stated sub-space of the two-constructor programs: every third
        # chain below the core forms, truncations and replacements only
        for lex in G.chain_programs(2, G.CORE_FORMS)[::3]:
            s = G.render(lex)
            for i in range(len(s) + 1):
                muts.add(s[:i])
            for i in range(len(s)):
                for c in CH.CORRUPT:
                    muts.add(s[:i] + c + s[i + 1:])
    # the same with a byte order mark (ES5 white space) in front
    muts |= set('\ufeff' + m for m in list(muts)
                if len(m) < 14 or tier != 'quick')
    muts = sorted(muts)
    total.merge(run_texts(muts, ('parse',)))
    total.merge(run_texts(muts[::4] if tier == 'quick' else muts[::2],
                          ('parse-comments',)))
    rep.space('truncations-corruptions', base=len(base), texts=len(muts))
    # (3) S1 prefixes and the look-ahead space S1+
    d = 2 if tier == 'quick' else 3
    dead, viable = dead_prefixes(AB.A, d)
    s1 = [trie.render(AB.A, p) for p in dead + viable]
    total.merge(run_texts(s1, ('parse', 'parse-comments', 'lex')))
    plus = []
    for p in dead + viable:
        t0 = trie.render(AB.A, p)
        for c in CATASTROPHIC:
            plus.append(t0 + ' ' + c)
            plus.append(t0 + c)
    # ... and followed by every lexeme of the alphabet plus a line break
    for p in dead:
        t0 = trie.render(AB.A, p)
        for x in AB.A:
            x = '\n' if x == trie.LF else x
            plus.append(t0 + ' ' + x + '\n')
    total.merge(run_texts(plus, ('parse',)))
    rep.space('S1-lookahead', depth=d, dead=len(dead), viable=len(viable),
              texts=len(plus) + len(s1))
    # (4) code points
    hi = 0x3100 if tier == 'quick' else 0x110000
    cps = [chr(c) for c in range(hi)]
    if tier == 'quick':
        cp_texts = cps + ["'" + c + "'" for c in cps] + [
            'a' + c + 'b' for c in cps]
    else:
        cp_texts = []
        for c in cps:
            cp_texts += [c, 'a' + c + 'b', "'" + c + "'"]
        cp_texts += ['/' + c + '/' for c in cps[:0x3100]]
    total.merge(run_texts(cp_texts, ('parse',)))
    rep.space('code-points', upto=hex(hi), texts=len(cp_texts))

    # (5) pumped inputs: prefix + unit^n + suffix of a fixed total length.
    # Inputs of the small-length spaces cannot show a running time that
    # grows exponentially with the length; these can.
    plen = 96 if tier == 'quick' else 160
    pumped = pumped_texts(tier, plen)
    n0 = total.cases
    total.merge(run_pumped(pumped))
    rep.space('pumped', length=plen, texts=len(pumped),
              budget_cpu_seconds=PUMP_BUDGET, runs=total.cases - n0,
              prefixes=PUMP_PRE, suffixes=PUMP_SUF,
              unit_alphabet=PUMP_WIDE if tier != 'quick' else PUMP_CORE,
              unit_alphabet_short=PUMP_WIDE)

    rep.bag.merge(total.bag)
    rep.cov['states'] = total.cases
    rep.cov['transitions'] = total.cases
    rep.cov['traces_validated_against_impl'] = total.cases
    rep.cov['evaluations'] = total.cases
    rep.cov['distinct_nontrivial'] = total.nontrivial
    rep.outcome(total.out)
    skipped = rep.cov['outcomes'].get('not-run:time-out-cap-reached', 0)
    if skipped:
        rep.cov['exhaustive'] = False
        rep.cov['caps_hit'].append(
            '%d cases not executed: their worker had already reported %d '
            'confirmed time-outs' % (skipped, TIMEOUT_CAP))
    rep.sample([{'text': strs[len(strs) // 3]}, {'text': muts[len(muts) // 2]},
                {'text': plus[len(plus) // 2]}, {'text': s1[-1]}])
    rep.cov['rule'] = (
        'every string over the character-class representatives up to the '
        'length bounds, every truncation and single-character corruption of '
        'the S2 programs, every S1 prefix (dead or viable) alone and followed '
        'by each lexically catastrophic lexeme, every code point; each run '
        'through parse() and/or bare Lexer iteration under a 10 s watchdog. '
        'Oracle: outcome is a tree or ECMASyntaxError; every quoted '
        "'text' at L:C of the message occurs at L:C (R1 line counting). "
        'non-trivial = the input is rejected')
    rep.cov['bounds'] = {'sigma_parse': [(n, k) for n, a, k in
                                         CH.spaces(tier, 'parse')],
                         'sigma_lex': [(n, k) for n, a, k in
                                       CH.spaces(tier, 'lex')],
                         's1_depth': d, 'code_points': hex(hi)}
    rep.assumptions += [
        'termination is claimed only for the explored inputs (watchdog '
        '10 s per input, norm 2 ms)',
        'representatives stand for their character class; the code-point '
        'sweep replaces the argument by brute force in the listed contexts']


def replay(w):
    acc = Acc()
    check_text(acc, w['text'], (w.get('mode', 'parse'),))
    return [{'sig': s, 'detail': v[2]} for s, v in acc.bag.d.items()]
