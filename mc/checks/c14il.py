# -*- coding: utf-8 -*-
"""
C14, interleaved print calls (schedule explorer over generators).

A print call is a generator: nothing forces a caller to exhaust one before
starting the next ("applying the same printer to the same tree any number of
times, INTERLEAVED with printing any other trees").  The history spaces of
c14.py close an abandoned generator before the next call starts; this module
keeps several generators ALIVE and explores every schedule that advances them
alternately, CHESS style, with the number of switches away from an unfinished
call (pre-emptions) as the deviation bound, iterated 1, 2, (3):

    bound 1   A runs a fragments | B runs to its end | A finishes
    bound 2   A runs a | B runs b | A finishes | B finishes
    bound 3   A runs a | B runs b | A runs a2 | B finishes | A finishes

for EVERY a, b (, a2) strictly inside the calls.  A generator can only be
suspended at a `yield`, i.e. between two fragments, and the whole process is
single threaded: fragment boundaries are ALL the scheduling points there are,
so within the bound the exploration of two live calls is complete.

A and B are (printer, tree) pairs over a pool; B's printer is the SAME OBJECT
as A's, a second object of the same kind, or a printer of another kind; a
tree used by both is the same object.

Oracle: every call yields exactly the fragments the same call yields as the
only call of a fresh process (so state that a call keeps on the printer
object, in a module or on the tree while it is suspended - even state that
is reset at the start of every call and balanced at its end, which no history
of completed or abandoned calls can see - shows up); the reflection
fingerprint of every tree is the pristine one after every case.

Every worker observation is re-run alone in a child forked from the pristine
parent (fresh parse, fresh printers) before it is reported.
"""
from __future__ import unicode_literals

import collections

from mc.boot import HarnessError
from mc.pool import pmap
from mc.explore import history as H
from mc.checks import c14 as C

SMALL = [
    # nested scopes with renamable names, an if and a return; names a file
    ("function f(aa){var bb=aa;if(bb){return function(cc){return cc+bb}}}",
     False, 'lib/small.js'),
    # array with elisions, object literal with a getter
    ("x=[1,,{p:[,],get q(){return 1}}];", False, None),
    # comments, a for loop, a string with a line continuation
    ("/*h*/ for(var i=0;i<n;i++){ // t\n s+='a\\\nb' }", True, None),
]


def pool_texts(pool):
    if pool == 'small':
        return SMALL
    return [(t, wc, 'lib/first.js' if j == 0 else None)
            for j, (t, wc) in enumerate(C.TEXTS)]


def parse_tree(L, pool, j):
    text, wc, path = pool_texts(pool)[j]
    tree = L.parser.parse(text, with_comments=wc)
    if path:
        tree.sourcepath = path
    return tree


def compute_baselines(printers):
    L = C.lib()
    base = {'frags': {}, 'treefp': {}}
    for pool in ('small', 'full'):
        for j in range(len(pool_texts(pool))):
            base['treefp'][pool, j] = H.deep_fp(parse_tree(L, pool, j))
            for name in printers:
                frags, exc = C.take(
                    C.make_printer(L, name)(parse_tree(L, pool, j)), None)
                if exc is not None:
                    raise HarnessError('baseline %s/%s/%d raised %r' % (
                        pool, name, j, exc))
                base['frags'][pool, name, j] = C.norm(name, frags)
    return base


def sharing(calls):
    (p, po, _), (q, qo, _) = calls[0], calls[1]
    if p != q:
        return 'other-kind'
    return 'same-object' if po == qo else 'same-kind'


def execute(L, base, case, trees=None):
    """Run one interleaved case -> list of (signature, detail)."""
    pool, calls, sched = case['pool'], case['calls'], case['schedule']
    trees = {} if trees is None else trees
    printers = {}
    gens, outs, excs = [], [], []
    for name, oid, j in calls:
        p = printers.get((name, oid))
        if p is None:
            p = printers[name, oid] = C.make_printer(L, name)
        if j not in trees:
            trees[j] = parse_tree(L, pool, j)
        gens.append(p(trees[j]))
        outs.append([])
        excs.append(None)
    done = [False] * len(calls)

    def advance(k, n):
        if done[k]:
            return
        g = gens[k]
        try:
            if n is None:
                for f in g:
                    outs[k].append(f)
                done[k] = True
            else:
                for _ in range(n):
                    outs[k].append(next(g))
        except StopIteration:
            done[k] = True
        except Exception as e:
            excs[k] = e
            done[k] = True

    for k, n in sched:
        advance(k, n)
    # what is still suspended finishes in reverse order of its last turn
    # (the schedule's last runner first) - fixed, part of the schedule
    order = []
    for k, _ in reversed(sched):
        if k not in order:
            order.append(k)
    for k in order + [k for k in range(len(calls)) if k not in order]:
        advance(k, None)
    vio = []
    ctx = 'sharing=%s|preemptions=%d' % (sharing(calls), len(sched) - 1)
    for k, (name, oid, j) in enumerate(calls):
        want = base['frags'][pool, name, j]
        got = C.norm(name, outs[k])
        fam = 'rules=%s' % C.FAMILY[name]
        if excs[k] is not None:
            vio.append((
                'C14|interleaved-call-raised-%s|%s|%s' % (
                    type(excs[k]).__name__, fam, ctx),
                'call %d raised %r after %d fragments' % (
                    k, excs[k], len(got))))
        elif got != want:
            vio.append((
                'C14|interleaved-fragments-differ|%s|%s' % (fam, ctx),
                'call %d: %s' % (k, C.first_diff(want, got))))
    for j in sorted(trees):
        want = base['treefp'][pool, j]
        got = H.deep_fp(trees[j])
        if got != want:
            vio.append((
                'C14|tree-modified-by-interleaved-calls|%s|%s' % (
                    C.locate(want, got), ctx),
                'tree %d: %s' % (j, H.describe_difference(want, got))))
            del trees[j]
    return vio


def schedules(bound, na, nb):
    """every schedule of two live calls with exactly `bound` pre-emptions"""
    if bound == 1:
        for a in range(1, na):
            yield [[0, a], [1, None]]
    elif bound == 2:
        for a in range(1, na):
            for b in range(1, nb):
                yield [[0, a], [1, b], [0, None]]
    elif bound == 3:
        for a in range(1, na):
            for b in range(1, nb):
                for a2 in range(1, na - a):
                    yield [[0, a], [1, b], [0, a2], [1, None]]
    else:
        raise ValueError(bound)


def pairs(printers, kinds, ntrees):
    """(callA, callB) for the requested sharing kinds"""
    out = []
    for p in printers:
        for i in range(ntrees):
            for j in range(ntrees):
                if 'same-object' in kinds:
                    out.append([[p, 0, i], [p, 0, j]])
                if 'same-kind' in kinds:
                    out.append([[p, 0, i], [p, 1, j]])
                if 'other-kind' in kinds:
                    for q in printers:
                        if q != p:
                            out.append([[p, 0, i], [q, 0, j]])
    return out


ALL = ('same-object', 'same-kind', 'other-kind')


def plan(tier):
    """[(space name, pool, bound, sharing kinds, printers)]"""
    P5, P7 = C.PRINTERS5, C.PRINTERS7
    if tier == 'quick':
        return [
            ('IL1-full', 'full', 1, ALL, P5),
            ('IL1-small', 'small', 1, ALL, P5),
            ('IL2-small', 'small', 2, ('same-object',), P5),
        ]
    return [
        ('IL1-full', 'full', 1, ALL, P7),
        ('IL1-small', 'small', 1, ALL, P7),
        ('IL2-small', 'small', 2, ALL, P7),
        ('IL2-full', 'full', 2, ('same-object', 'same-kind'), P5),
        ('IL3-small', 'small', 3, ('same-object',), P5),
    ]


def run(tier, rep, printers):
    base = H.fresh_child(compute_baselines, printers)
    again = H.fresh_child(compute_baselines, printers)
    if base != again:
        rep.harness_errors.append(
            'interleaving baselines differ between two fresh processes')
        return
    spaces = plan(tier)
    items = []
    for name, pool, bound, kinds, prs in spaces:
        n = len(pool_texts(pool))
        for calls in pairs(prs, kinds, n):
            items.append((name, pool, bound, calls))
    # longest blocks first, so that the striping balances
    def weight(it):
        _, pool, bound, calls = it
        na = len(base['frags'][pool, calls[0][0], calls[0][2]])
        nb = len(base['frags'][pool, calls[1][0], calls[1][2]])
        return {1: na, 2: na * nb, 3: na * na * nb // 2}[bound]
    items.sort(key=lambda it: (-weight(it), repr(it)))

    def work(blocks, widx):
        L = C.lib()
        found = {}
        per_space = collections.Counter()
        outcomes = collections.Counter()
        ncases = ncalls = 0
        for name, pool, bound, calls in blocks:
            na = len(base['frags'][pool, calls[0][0], calls[0][2]])
            nb = len(base['frags'][pool, calls[1][0], calls[1][2]])
            trees = {}
            for sched in schedules(bound, na, nb):
                case = {'pool': pool, 'calls': calls, 'schedule': sched}
                vio = execute(L, base, case, trees)
                ncases += 1
                ncalls += len(calls)
                per_space[name] += 1
                outcomes['%s:%s' % (sharing(calls), 'as-baseline'
                                    if not vio else 'differs')] += 1
                for sig, detail in vio:
                    e = found.setdefault(sig, [0, None, None])
                    e[0] += 1
                    if e[1] is None:      # schedules come smallest first
                        e[1], e[2] = case, detail
        return ncases, ncalls, dict(per_space), dict(outcomes), found

    results = pmap(work, items)
    found = {}
    per_space = collections.Counter()
    ncases = ncalls = 0
    for a, b, ps, oc, fd in results:
        ncases += a
        ncalls += b
        per_space.update(ps)
        rep.outcome(dict(('interleaved:' + k, v) for k, v in oc.items()))
        for sig, (n, case, detail) in fd.items():
            e = found.setdefault(sig, [0, None, None])
            e[0] += n
            if e[1] is None or (len(repr(case)), repr(case)) < (
                    len(repr(e[1])), repr(e[1])):
                e[1], e[2] = case, detail

    def alone(case):
        return execute(C.lib(), base, case)

    for sig in sorted(found):
        n, case, detail = found[sig]
        got = dict(H.fresh_child(alone, case))
        if not got:
            rep.harness_errors.append(
                'interleaved case %r gave %s in a worker but nothing when '
                're-run alone in a fresh process' % (case, sig))
            continue
        for s in ([sig] if sig in got else sorted(got)):
            rep.bag.add(s, {'interleave': case}, got[s])
            if s == sig:
                rep.bag.d[s][0] += n - 1

    rep.cov['states'] += ncases
    rep.cov['evaluations'] += ncases
    rep.cov['distinct_nontrivial'] += ncases
    rep.cov['transitions'] += ncalls
    rep.cov['traces_validated_against_impl'] += ncalls
    rep.cov['interleaved_schedules'] = ncases
    for name, pool, bound, kinds, prs in spaces:
        rep.space(name, enumerated=per_space[name], pool=pool,
                  preemptions=bound, sharing=list(kinds),
                  printers=list(prs))
    rep.cov['bounds']['interleaving'] = collections.OrderedDict([
        ('live_calls', 2),
        ('scheduling_points', 'every fragment boundary (every yield)'),
        ('preemption_bounds_completed', sorted(set(s[2] for s in spaces))),
        ('small_pool', [t for t, _, _ in SMALL]),
    ])
    rep.sample([{'interleave': {'pool': it[1], 'calls': it[3],
                                'schedule': next(schedules(it[2], 9, 9))}}
                for it in items[::max(1, len(items) // 3)]][:3], limit=16)
    rep.assumptions.append(
        'interleaving: two live calls, all schedules with <= the stated '
        'number of pre-emptions at fragment boundaries (a generator cannot '
        'be suspended anywhere else); three or more live calls, and a '
        'generator closed or raising while another is suspended, are not '
        'explored')


def replay(case):
    base = H.fresh_child(compute_baselines, C.PRINTERS7)

    def alone(case):
        return execute(C.lib(), base, case)
    return [{'sig': s, 'detail': d} for s, d in H.fresh_child(alone, case)]
