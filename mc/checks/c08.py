# -*- coding: utf-8 -*-
"""
C08 - emitted fragments carry the true source position of their token.

E2: S2(k) programs x layouts x printers (pretty, minify, minify+obfuscate
with globals) x with/without comment capture, plus two-source streams.  For
every fragment with an explicit line and column the source text at that place
(R1 line counting) must begin with the fragment's token (or with the original
name it records); explicitly positioned fragments must name the right file.
"""
from __future__ import unicode_literals

import collections
import itertools

from mc import impl as I
from mc.checks import positions as PS
from mc.pool import pmap
from mc.refmodel import parser as R2
from mc.refmodel import tree as R3
from mc.refmodel.lexer import LineIndex
from mc.report import VioBag
from mc.space import grammar as G

PRINTERS = ['pretty', 'minify', 'obfuscate']


def make_printer(name):
    from calmjs.parse.unparsers.es5 import pretty_printer, minify_printer
    if name == 'pretty':
        return pretty_printer()
    if name == 'minify':
        return minify_printer()
    if name == 'minify-drop':
        return minify_printer(drop_semi=True)
    return minify_printer(obfuscate=True, obfuscate_globals=True)


class Acc(object):
    def __init__(self):
        self.bag = VioBag()
        self.out = collections.Counter()
        self.cases = 0
        self.nontrivial = 0
        self.frags = 0
        self.positioned = 0
        self.samples = []

    def merge(self, o):
        self.bag.merge(o.bag)
        self.out.update(o.out)
        self.cases += o.cases
        self.nontrivial += o.nontrivial
        self.frags += o.frags
        self.positioned += o.positioned
        if len(self.samples) < 30:
            self.samples.extend(o.samples[:2])


def frag_class(text):
    t = text.strip()
    if not t:
        return 'SPACE'
    if t[0].isalpha() or t[0] in '$_' or ord(t[0]) > 127:
        from mc.refmodel.lexer import RESERVED
        return t if t in RESERVED else 'ID'
    if t[0].isdigit() or (t[0] == '.' and len(t) > 1):
        return 'NUM'
    if t[0] in '\'"':
        return 'STR'
    if t[0] == '/' and len(t) > 2 and not t.startswith(('//', '/*')):
        return 'REGEX'
    if t.startswith(('//', '/*')):
        return 'COMMENT'
    if set(t) == set(','):
        return 'commas' if len(t) > 1 else ','
    return t if len(t) <= 4 else 'TEXT'


def check_fragments(acc, text, frags, printer, ref, w, expect_source=None):
    """frags: list of StreamFragment produced from the tree of `text`"""
    li = LineIndex(text)
    toks = dict((t.start, t) for t in ref.tokens)
    comments = dict((c[0], text[c[0]:c[1]]) for c in ref.lexer.all_comments())
    n_asi = len(ref.asi)
    bad_semis = []
    for f in frags:
        acc.frags += 1
        txt, line, col, name, source = f
        if not line or not col:
            continue
        acc.positioned += 1
        core = txt.strip()
        fc = frag_class(txt)
        off = li.offset(line, col)
        if off is None or off > len(text):
            acc.bag.add('C08|%s|position-out-of-range|%s' % (printer, fc), w,
                        'fragment %r at %s:%s' % (txt, line, col))
            continue
        want = name if name is not None else core
        if name is not None:
            ok = text[off:].startswith(name)
        elif fc == 'STR':
            t = toks.get(off)
            # the source begins with the fragment: a literal whose line
            # continuations were removed is no longer the text found there
            ok = t is not None and t.type == 'str' and t.value == core
        elif fc == 'commas':
            ok = text[off:off + 1] == ','
        elif fc == 'COMMENT':
            ok = comments.get(off) == core
        else:
            t = toks.get(off)
            ok = t is not None and t.value == core
        if not ok:
            if core == ';':
                bad_semis.append((f, off))
                continue
            acc.bag.add('C08|%s|fragment-not-at-its-source-position|%s%s' % (
                printer, fc, '|renamed' if name is not None else ''), w,
                'fragment %r (name %r) claims %s:%s = offset %d where the '
                'source has %r' % (txt, name, line, col, off,
                                   text[off:off + 10]))
        if expect_source is not None:
            pass
    # only semicolons supplied by automatic insertion are exempt
    if len(bad_semis) > n_asi:
        f, off = bad_semis[0]
        acc.bag.add('C08|%s|fragment-not-at-its-source-position|;' % printer,
                    w, 'fragment %r claims %s:%s where the source has %r '
                    '(%d such fragments, %d inserted semicolons)' % (
                        f.text, f.lineno, f.colno, text[off:off + 10],
                        len(bad_semis), n_asi))


def check_text(acc, text, printers, w, with_comments=False):
    acc.cases += 1
    out = I.run_parse(text, with_comments=with_comments, keep_node=True)
    ref = R2.parse(text)
    if out.kind != 'accept' or ref.verdict != 'accept' or \
            out.tree != ref.neutral:
        acc.out['skipped: not accepted alike by both parsers (C03/C04)'] += 1
        return
    acc.nontrivial += 1
    for pn in printers:
        try:
            frags = list(make_printer(pn)(out.node))
        except Exception as e:
            acc.bag.add('C08|%s|print-raises|%s' % (pn, type(e).__name__),
                        dict(w, printer=pn), repr(e))
            continue
        if len(acc.samples) < 2:
            acc.samples.append({'text': text, 'printer': pn, 'fragments': [
                list(f[:4]) for f in frags[:12]]})
        check_fragments(acc, text, frags, pn, ref, dict(w, printer=pn))


def check_two_sources(acc, t1, t2, printer):
    """fragments of two trees chained; every explicitly positioned fragment
    must be attributed (explicitly, or by the writer's 'same as previous'
    rule) to the file its tree came from"""
    acc.cases += 1
    o1 = I.run_parse(t1, keep_node=True)
    o2 = I.run_parse(t2, keep_node=True)
    if o1.kind != 'accept' or o2.kind != 'accept':
        return
    o1.node.sourcepath = 'a.js'
    o2.node.sourcepath = 'b.js'
    p = make_printer(printer)
    acc.nontrivial += 1
    current = None
    w = {'two_sources': [t1, t2], 'printer': printer}
    for origin, tree in (('a.js', o1.node), ('b.js', o2.node)):
        for f in p(tree):
            acc.frags += 1
            if f.source is not None:
                current = f.source
            if f.lineno and f.colno:
                acc.positioned += 1
                if current != origin:
                    acc.bag.add(
                        'C08|%s|fragment-attributed-to-wrong-source|%s|'
                        'explicit=%s' % (printer, frag_class(f.text),
                                         f.source is not None), w,
                        'fragment %r from %s attributed to %r' % (
                            f.text, origin, current))
                    break


SECOND = ['x ;', '{ x ; }', '; x ;', '( x ) ;', 'function f ( ) { }',
          'if ( a ) b ;', '{ }', "'s' ;"]


def run(tier, rep):
    items = PS.program_space(tier)

    def work(chunk, idx):
        acc = Acc()
        for lex, one_gap, uniform in chunk:
            for text, lay in PS.layouts_for(lex, one_gap, uniform):
                check_text(acc, text, PRINTERS, {'text': text})
        return acc
    total = Acc()
    for a in pmap(work, items):
        total.merge(a)
    # comments captured, multi-line tokens
    extra = Acc()
    cm = list(PS.MULTILINE_TOKENS)
    for lex in G.programs(1):
        cm.append('/*c*/ ' + ' /*d\ne*/ '.join(lex) + ' // f')
    for t in cm:
        check_text(extra, t, PRINTERS + ['minify-drop'], {
            'text': t, 'with_comments': True}, with_comments=True)
        check_text(extra, t, PRINTERS, {'text': t})
    total.merge(extra)
    # two sources
    firsts = [G.render(l) for l in G.programs(1)]
    pairs = [(a, b) for a in firsts for b in SECOND]

    def work2(chunk, idx):
        acc = Acc()
        for a, b in chunk:
            for pn in ('pretty', 'minify'):
                check_two_sources(acc, a, b, pn)
        return acc
    for a in pmap(work2, pairs):
        total.merge(a)
    rep.bag.merge(total.bag)
    rep.space('programs', count=len(items), commented=len(cm),
              source_pairs=len(pairs))
    rep.cov['states'] = total.cases
    rep.cov['transitions'] = total.frags
    rep.cov['traces_validated_against_impl'] = total.positioned
    rep.cov['evaluations'] = total.cases
    rep.cov['distinct_nontrivial'] = total.nontrivial
    rep.cov['fragments'] = total.frags
    rep.cov['explicitly_positioned_fragments_checked'] = total.positioned
    rep.outcome(total.out)
    rep.sample(total.samples)
    rep.cov['rule'] = (
        'every S2 program x layout x printer; states = texts, transitions = '
        'fragments emitted, traces = explicitly positioned fragments '
        'compared with the source text; non-trivial = both parsers accept '
        'the text with equal trees')
    rep.cov['bounds'] = {'printers': PRINTERS, 'tier': tier}
    rep.assumptions += [
        'a `;` fragment pointing at non-`;` text is exempt only while the '
        'number of such fragments does not exceed the number of semicolons '
        'R2 reports as inserted']


def replay(w):
    acc = Acc()
    if 'two_sources' in w:
        check_two_sources(acc, w['two_sources'][0], w['two_sources'][1],
                          w['printer'])
    else:
        check_text(acc, w['text'], [w.get('printer', 'pretty')], w,
                   with_comments=w.get('with_comments', False))
    return [{'sig': s, 'detail': v[2]} for s, v in acc.bag.d.items()]
