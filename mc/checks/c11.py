# -*- coding: utf-8 -*-
"""
C11 - every AST node position is self-consistent and lies on its own token.

E2: S2(k) programs x layouts (uniform separators, every gap pushed to a new
line / behind a comment in turn, CRLF, Unicode line terminators, multi-line
tokens).  The implementation tree and the R2 tree (with spans and own-token
offsets) are walked in parallel.
"""
from __future__ import unicode_literals

import collections

from mc import impl as I
from mc.checks import positions as PS
from mc.pool import pmap
from mc.refmodel import parser as R2
from mc.refmodel import tree as R3
from mc.refmodel.lexer import LineIndex
from mc.report import VioBag
from mc.space import grammar as G


class Acc(object):
    def __init__(self):
        self.bag = VioBag()
        self.out = collections.Counter()
        self.cases = 0
        self.nontrivial = 0
        self.nodes = 0
        self.entries = 0
        self.kinds = collections.Counter()
        self.samples = []

    def merge(self, o):
        self.bag.merge(o.bag)
        self.out.update(o.out)
        self.kinds.update(o.kinds)
        self.cases += o.cases
        self.nontrivial += o.nontrivial
        self.nodes += o.nodes
        self.entries += o.entries
        if len(self.samples) < 30:
            self.samples.extend(o.samples[:2])


def pair_walk(node, rnode, out):
    """[(calmjs node, RNode)] by parallel attribute reflection"""
    out.append((node, rnode))
    rf = dict(rnode.fields)
    for k, v in R3.fields_of(node):
        rv = rf.get(k)
        if R3.is_node(v) and isinstance(rv, R2.RNode):
            pair_walk(v, rv, out)
        elif isinstance(v, (list, tuple)) and isinstance(rv, (list, tuple)):
            for a, b in zip(v, rv):
                if R3.is_node(a) and isinstance(b, R2.RNode):
                    pair_walk(a, b, out)


def layout_before(text, off):
    """class of the layout just before an offset"""
    i = off
    while i > 0 and text[i - 1] in ' \t':
        i -= 1
    if i == 0:
        return 'start'
    c = text[i - 1]
    if c == '\n' and text[i - 2:i - 1] == '\r':
        return 'CRLF'
    if c == '\n':
        return 'LF'
    if c == '\r':
        return 'CR'
    if c in '\u2028\u2029':
        return 'LSPS'
    if text[i - 2:i] == '*/':
        return 'comment'
    return 'same-line'


def terminators_before(text, off):
    before = text[:off]
    if '\u2028' in before or '\u2029' in before:
        return 'LSPS'
    if '\r\n' in before:
        return 'CRLF'
    if '\r' in before:
        return 'CR'
    if '\n' in before:
        return 'LF'
    return 'none'


# "its first token, or its operator for binary, assignment, conditional and
# accessor forms": the forms the property names must sit on their operator;
# comma, label, postfix and grouping nodes (not named) may sit on either
OPERATOR_ANCHORED = ('BinOp', 'Assign', 'Conditional', 'DotAccessor',
                     'BracketAccessor')
EITHER_ANCHOR = ('Comma', 'Label', 'PostfixExpr', 'GroupingOp')


def check_text(acc, text, lay, w):
    acc.cases += 1
    out = I.run_parse(text, keep_node=True)
    ref = R2.parse(text)
    if out.kind != 'accept' or ref.verdict != 'accept' or \
            out.tree != ref.neutral:
        acc.out['skipped: not accepted alike by both parsers (C03/C04)'] += 1
        return
    acc.nontrivial += 1
    li = LineIndex(text)
    pairs = []
    pair_walk(out.node, ref.tree, pairs)
    if len(acc.samples) < 2:
        acc.samples.append({'text': text, 'nodes': len(pairs)})
    tok_starts = set(t.start for t in ref.tokens)
    for node, rn in pairs:
        kind = type(node).__name__
        acc.nodes += 1
        acc.kinds[kind] += 1
        placeholder = rn.semi is not None and rn.semi[0] == 'placeholder'
        pos = (node.lexpos, node.lineno, node.colno)
        if None in pos:
            acc.bag.add('C11|node-without-position|%s' % kind, w, repr(pos))
            continue
        # (1) mutually consistent
        if li.linecol(node.lexpos) != (node.lineno, node.colno):
            acc.bag.add('C11|node-line-column-inconsistent|%s|terminators=%s'
                        % (kind, terminators_before(text, node.lexpos)), w,
                        '%s at offset %d reports %d:%d, counting gives %s' % (
                            kind, node.lexpos, node.lineno, node.colno,
                            li.linecol(node.lexpos)))
        # (2) on a token of its own extent
        if not placeholder:
            anchors = set([rn.start]) | set(o for t, o in rn.toks)
            if node.lexpos not in anchors:
                where = 'outside-extent' if not (
                    rn.start <= node.lexpos < max(rn.end, rn.start + 1)) \
                    else ('on-a-child-token' if node.lexpos in tok_starts
                          else 'not-on-a-token')
                acc.bag.add('C11|node-position-not-on-own-token|%s|%s|'
                            'layout-before-first-token=%s' % (
                                kind, where, layout_before(text, rn.start)),
                            w, '%s offset %d, extent [%d,%d), own tokens %r'
                            % (kind, node.lexpos, rn.start, rn.end, rn.toks))
            elif kind in OPERATOR_ANCHORED:
                if rn.toks and node.lexpos != rn.toks[0][1]:
                    acc.bag.add('C11|node-position-not-on-its-operator|%s'
                                % kind, w, '%s offset %d, its operator %r is '
                                'at %d' % (kind, node.lexpos, rn.toks[0][0],
                                           rn.toks[0][1]))
            elif kind not in EITHER_ANCHOR and node.lexpos != rn.start:
                acc.bag.add('C11|node-position-not-on-its-first-token|%s'
                            % kind, w, '%s offset %d, first token at %d' % (
                                kind, node.lexpos, rn.start))
        # (3) token map entries
        tm = getattr(node, '_token_map', None) or {}
        inserted = rn.semi is not None and rn.semi[0] == 'inserted'
        for s, entries in tm.items():
            for n, e in enumerate(entries):
                acc.entries += 1
                lexpos, lineno, colno = e
                if s == ';' and (inserted or placeholder):
                    continue
                if not lineno and not colno:
                    # no position recorded (synthetic token)
                    if s == ';':
                        continue
                    acc.bag.add('C11|token-map-entry-without-position|%s|%s'
                                % (kind, tokname(s)), w, repr(e))
                    continue
                probe = s[:1] if set(s) == set(',') else s
                if not text[lexpos:].startswith(probe):
                    acc.bag.add('C11|token-map-entry-not-on-its-text|%s|%s|'
                                'occurrence=%d' % (kind, tokname(s), n), w,
                                '%r recorded at %d where the source has %r'
                                % (s, lexpos, text[lexpos:lexpos + 8]))
                elif li.linecol(lexpos) != (lineno, colno):
                    acc.bag.add('C11|token-map-line-column-inconsistent|%s|'
                                '%s|terminators=%s' % (
                                    kind, tokname(s),
                                    terminators_before(text, lexpos)), w,
                                '%r at %d reports %s:%s, counting gives %s'
                                % (s, lexpos, lineno, colno,
                                   li.linecol(lexpos)))


def tokname(s):
    if set(s) == set(','):
        return 'commas'
    if len(s) > 12 or s[:1] in '\'"/' or s[:1].isdigit():
        return 'LITERAL'
    return s


def run(tier, rep):
    items = PS.program_space(tier)

    def work(chunk, idx):
        acc = Acc()
        for lex, one_gap, uniform in chunk:
            for text, lay in PS.layouts_for(lex, one_gap, uniform):
                check_text(acc, text, lay, {'text': text})
        return acc
    total = Acc()
    for a in pmap(work, items):
        total.merge(a)
    extra = Acc()
    for t in PS.MULTILINE_TOKENS:
        check_text(extra, t, 'multi-line-tokens', {'text': t})
    total.merge(extra)
    rep.bag.merge(total.bag)
    rep.space('programs', count=len(items),
              multiline_token_texts=len(PS.MULTILINE_TOKENS))
    rep.cov['states'] = total.cases
    rep.cov['transitions'] = total.nodes
    rep.cov['traces_validated_against_impl'] = total.nontrivial
    rep.cov['evaluations'] = total.cases
    rep.cov['distinct_nontrivial'] = total.nontrivial
    rep.cov['nodes_checked'] = total.nodes
    rep.cov['token_map_entries_checked'] = total.entries
    rep.cov['node_kinds_exercised'] = dict(total.kinds)
    rep.outcome(total.out)
    rep.sample(total.samples)
    rep.cov['rule'] = (
        'every S2 program x layout (uniform separators; one gap at a time '
        'pushed to a new line / behind a comment); states = texts, '
        'transitions = nodes compared with the R2 node of the same path; '
        'non-trivial = both parsers accept with equal trees')
    rep.cov['bounds'] = {'tier': tier}
    rep.assumptions += [
        'allowed anchors of a node = its first token or one of the tokens '
        'of its own production (R2 own-token list); binary, assignment, '
        'conditional and accessor nodes: their (first) operator token; all '
        'others except comma, label, postfix and grouping nodes: their '
        'first token',
        'texts on which the two parsers disagree are left to C03/C04']


def replay(w):
    acc = Acc()
    check_text(acc, w['text'], '', w)
    return [{'sig': s, 'detail': v[2]} for s, v in acc.bag.d.items()]
