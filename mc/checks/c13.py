# -*- coding: utf-8 -*-
"""
C13 - comment capture is faithful and does not perturb the parse.

E2: every program of S2(k) x every gap between two lexemes (and the two ends)
x comment kind.  The text is parsed with and without capture; attached
comments are checked against the source; the pretty-printed commented tree is
read back by R2 (a conforming reader) and by the implementation with capture.
"""
from __future__ import unicode_literals

import collections

from mc import impl as I
from mc import judge
from mc.pool import pmap
from mc.refmodel import parser as R2
from mc.refmodel import tree as R3
from mc.refmodel.lexer import LineIndex, RESERVED
from mc.report import VioBag
from mc.space import grammar as G

KINDS = [('block', '/*c*/'), ('block-multiline', '/*c\nd*/'),
         ('line', '//c\n')]


def lexeme_class(l):
    if l is None:
        return 'NONE'
    if l in RESERVED or l in ('get', 'set'):
        return l
    c = l[0]
    if c.isalpha() or c in '$_':
        return 'ID'
    if c.isdigit() or (c == '.' and len(l) > 1):
        return 'NUM'
    if c in '\'"':
        return 'STR'
    if c == '/' and len(l) > 2:
        return 'REGEX'
    return l


def comments_by_path(node):
    """{structural path: [comment texts]} by attribute reflection"""
    out = {}

    def rec(v, path):
        if R3.is_node(v):
            c = getattr(v, 'comments', None)
            if c is not None:
                out[path + '/' + type(v).__name__] = [
                    x.value for x in vars(c).get('_children_list', [])]
            for k, x in R3.fields_of(v):
                rec(x, '%s/%s.%s' % (path, type(v).__name__, k))
        elif isinstance(v, (list, tuple)):
            for i, x in enumerate(v):
                rec(x, '%s[%d]' % (path, i))
    rec(node, '')
    return out


def attached_comments(node):
    """[(owner kind, comment node)] in reflection order"""
    out = []
    for n in R3.walk_calmjs(node):
        if type(n).__name__ in ('Comments', 'LineComment', 'BlockComment'):
            continue
        c = getattr(n, 'comments', None)
        if c is not None:
            for x in vars(c).get('_children_list', []):
                out.append((type(n).__name__, x))
    return out


class Acc(object):
    def __init__(self):
        self.bag = VioBag()
        self.out = collections.Counter()
        self.cases = 0
        self.nontrivial = 0
        self.traces = 0
        self.samples = []
        self.owners = collections.Counter()

    def merge(self, o):
        self.bag.merge(o.bag)
        self.out.update(o.out)
        self.owners.update(o.owners)
        self.cases += o.cases
        self.nontrivial += o.nontrivial
        self.traces += o.traces
        if len(self.samples) < 30:
            self.samples.extend(o.samples[:2])


def check_text(acc, text, ctx, w):
    from calmjs.parse.unparsers.es5 import pretty_print
    acc.cases += 1
    plain = I.run_parse(text)
    capt = I.run_parse(text, with_comments=True, keep_node=True)
    acc.out['plain=%s capture=%s' % (plain.kind, capt.kind)] += 1
    if plain.kind == 'crash' or capt.kind == 'crash':
        if plain.kind != capt.kind:
            acc.bag.add('C13|capture-changes-outcome|%s->%s|%s' % (
                plain.kind, capt.kind, ctx), w, '%s / %s' % (
                    plain.msg, capt.msg))
        return
    if plain.kind != capt.kind:
        acc.bag.add('C13|capture-changes-acceptance|%s->%s|%s' % (
            plain.kind, capt.kind, ctx), w,
            '%s / %s' % (plain.msg, capt.msg))
        return
    if plain.kind != 'accept':
        return
    if plain.tree != capt.tree:
        acc.bag.add('C13|capture-changes-tree|%s|%s' % (
            R3.diff_kind(plain.tree, capt.tree), ctx), w,
            R3.first_diff(plain.tree, capt.tree))
        return
    # attached comments against the source
    li = LineIndex(text)
    ref0 = R2.parse(text)
    spans = None
    if ref0.verdict == 'accept':
        spans = set((c[0], c[1]) for c in ref0.lexer.all_comments())
    att = attached_comments(capt.node)
    seen = {}
    last = {}
    for owner, c in att:
        acc.owners[owner] += 1
        val = c.value
        pos = c.lexpos
        if pos is None or text[pos:pos + len(val)] != val:
            acc.bag.add('C13|comment-not-verbatim-at-offset|owner=%s|%s' % (
                owner, ctx), w, 'comment %r offset %r' % (val, pos))
            continue
        if spans is not None and (pos, pos + len(val)) not in spans:
            acc.bag.add('C13|attached-text-is-not-a-source-comment|owner=%s|'
                        '%s' % (owner, ctx), w,
                        'comment %r offset %r' % (val, pos))
        if (c.lineno, c.colno) != li.linecol(pos):
            acc.bag.add('C13|comment-line-column-wrong|owner=%s|%s' % (
                owner, ctx), w, 'comment %r reported %s:%s, counting gives '
                '%s' % (val, c.lineno, c.colno, li.linecol(pos)))
        if pos in seen:
            acc.bag.add('C13|comment-attached-twice|owners=%s,%s|%s' % (
                seen[pos], owner, ctx), w, 'comment %r at %d' % (val, pos))
        seen[pos] = owner
    # order within each node
    for n in R3.walk_calmjs(capt.node):
        c = getattr(n, 'comments', None)
        if c is None or type(n).__name__ == 'Comments':
            continue
        offs = [x.lexpos for x in vars(c).get('_children_list', [])]
        if offs != sorted(offs):
            acc.bag.add('C13|comments-out-of-source-order|owner=%s|%s' % (
                type(n).__name__, ctx), w, repr(offs))
    if att:
        acc.nontrivial += 1
    # pretty printing the commented tree
    try:
        P = pretty_print(capt.node)
    except Exception as e:
        acc.bag.add('C13|print-raises|%s|%s' % (type(e).__name__, ctx), w,
                    repr(e))
        return
    if len(acc.samples) < 2 and att:
        acc.samples.append({'text': text, 'attached': [
            (o, c.value) for o, c in att], 'pretty': P})
    acc.traces += 1
    ref = R2.parse(P)
    if ref.verdict == 'reject':
        acc.bag.add('C13|conforming-reader-rejects-pretty-output|%s|%s' % (
            ref.reason, ctx), w, 'output %r rejected at %d' % (P, ref.offset))
    elif ref.verdict == 'accept' and ref.neutral != capt.tree:
        acc.bag.add('C13|conforming-reader-reads-different-tree|%s|%s' % (
            R3.diff_kind(capt.tree, ref.neutral), ctx), w,
            'output %r: %s' % (P, R3.first_diff(capt.tree, ref.neutral)))
    back = I.run_parse(P, with_comments=True, keep_node=True)
    if back.kind != 'accept':
        acc.bag.add('C13|impl-rejects-pretty-output|%s|ref=%s|%s' % (
            judge.msg_kind(back.msg or ''),
            ref.reason if ref.verdict == 'reject' else ref.verdict, ctx), w,
            'output %r: %s' % (P, back.msg))
        return
    if back.tree != capt.tree:
        acc.bag.add('C13|impl-reads-different-tree|%s|%s' % (
            R3.diff_kind(capt.tree, back.tree), ctx), w,
            'output %r: %s' % (P, R3.first_diff(capt.tree, back.tree)))
        return
    a, b = comments_by_path(capt.node), comments_by_path(back.node)
    if a != b:
        lost = sorted(set(a) - set(b))
        gained = sorted(set(b) - set(a))
        what = 'moved' if lost and gained else (
            'lost' if lost else ('gained' if gained else 'changed'))
        owner = (lost or gained or sorted(a))[0].rsplit('/', 1)[-1]
        acc.bag.add('C13|comments-not-preserved-by-print-and-reparse|%s|'
                    'owner=%s|%s' % (what, owner, ctx), w,
                    'output %r: before %r after %r' % (P, a, b))


def gap_cases(lex, kinds, double=False):
    n = len(lex)
    for i in range(n + 1):
        left = lex[i - 1] if i > 0 else None
        right = lex[i] if i < n else None
        for kname, ktext in kinds:
            ins = ktext + (' ' + ktext if double else '')
            parts = list(lex[:i]) + [ins] + list(lex[i:])
            text = ' '.join(parts)
            ctx = 'kind=%s%s|left=%s|right=%s' % (
                kname, '-x2' if double else '',
                judge.coarse_prev(lexeme_class(left)),
                judge.coarse_next(lexeme_class(right) if right is not None
                                  else 'EOF'))
            yield text, ctx, {'text': text, 'ctx': ctx}


def run(tier, rep):
    items = []
    for lex in G.programs(1):
        items.append((lex, KINDS, False))
        items.append((lex, KINDS, True))
    if tier == 'quick':
        for lex in G.chain_programs(2, G.CORE_FORMS):
            items.append((lex, KINDS[:1], False))
    else:
        for lex in G.programs(2):
            items.append((lex, KINDS, False))

    def work(chunk, idx):
        acc = Acc()
        for lex, kinds, double in chunk:
            for text, ctx, w in gap_cases(lex, kinds, double):
                check_text(acc, text, ctx, w)
        return acc
    total = Acc()
    for a in pmap(work, items):
        total.merge(a)

    # comments where a semicolon is left to automatic insertion: every
    # statement terminator (one at a time, and all) replaced by each layout
    # that holds a comment; the restricted-production templates likewise
    from mc.checks import c04 as C04
    from mc.space import layouts as LAY
    clays = [(n, l) for n, l in LAY.LAYOUTS if 'COMMENT' in n]
    asi = []
    for lex in G.programs(1):
        for text, name in C04.variants(lex, clays, 'single-and-all'):
            asi.append((text, 'asi|layout=%s' % name))
    for tpl in C04.RESTRICTED:
        for name, lay in clays:
            asi.append((tpl.replace('{L}', lay), 'restricted|layout=%s' % name))
    # comment spellings: blanks at the end of a line comment, stars and
    # slashes inside, the empty comments
    SPELL = ['// c  ', '//\tc\t', '//', '/**/', '/***/', '/* * / */',
             '/*//*/', '// /* c', '/*c*/ // d  ', '//c \t ']
    spell = []
    for sp in SPELL:
        for tpl in ('%s\na ;', 'a ; %s\n', 'a ; %s\nb ;',
                    'function f ( ) { %s\nreturn a ; %s\n}',
                    'x = { %s\np : 1 } ;', 'a = [ 1 , %s\n2 ] ;'):
            spell.append((tpl.replace('%s', sp), 'spelling'))
    extra = sorted(set(asi + spell))

    def work2(chunk, idx):
        acc = Acc()
        for text, ctx in chunk:
            check_text(acc, text, ctx, {'text': text, 'ctx': ctx})
        return acc
    for a in pmap(work2, extra):
        total.merge(a)
    rep.space('asi-through-comments', texts=len(set(asi)),
              layouts=[n for n, l in clays])
    rep.space('comment-spellings', texts=len(set(spell)), spellings=SPELL)
    rep.bag.merge(total.bag)
    rep.space('programs', count=len(items))
    rep.cov['states'] = total.cases
    rep.cov['transitions'] = total.cases
    rep.cov['traces_validated_against_impl'] = total.traces
    rep.cov['evaluations'] = total.cases
    rep.cov['distinct_nontrivial'] = total.nontrivial
    rep.cov['comment_owner_kinds'] = dict(total.owners)
    rep.outcome(total.out)
    rep.sample(total.samples)
    rep.cov['rule'] = (
        'every S2 program x every gap (incl. both ends) x comment kind '
        '(single; doubled on S2(1)); parsed with and without capture, '
        'attached comments checked against the source, pretty output read '
        'back by R2 and by the implementation with capture.  non-trivial = '
        'at least one comment was attached to a node')
    rep.cov['bounds'] = {'S2_k': 2, 'kinds': [k for k, _ in KINDS],
                         'quick_inner_forms': sorted(G.CORE_FORMS)}
    rep.assumptions += [
        'whether the parse of a commented text is itself right (comments and '
        'ASI / regex decisions) is judged by C04/C05; here capture on/off '
        'must agree and printing must preserve',
        'R2 stands for "an ES5 parser" reading the pretty output']


def replay(w):
    acc = Acc()
    check_text(acc, w['text'], w.get('ctx', ''), w)
    return [{'sig': s, 'detail': v[2]} for s, v in acc.bag.d.items()]
