# -*- coding: utf-8 -*-
"""C20 - pretty output is indented exactly by block depth, ends with one
newline."""
from __future__ import unicode_literals

from mc.checks import printers as P
from mc.space import grammar as G

CONTAINERS = frozenset([
    'block-empty', 'block-1', 'block-2', 'fdecl-empty', 'fdecl', 'fexpr',
    'fexpr-body', 'obj-empty', 'obj-1', 'obj-2', 'obj-get', 'obj-get-empty',
    'obj-set', 'switch-empty', 'switch-case0', 'switch-case',
    'switch-default', 'switch-case-default', 'switch-fall', 'try-all',
    'try-empty', 'if', 'if-else', 'label'])


def container_chains(depth):
    """chains whose every level is a brace/body carrying form"""
    def ok(name):
        return name in CONTAINERS

    def rec(d, kind):
        forms = G.EXPR_FORMS if kind == 'E' else G.STMT_FORMS
        for f in forms:
            if not ok(f.name):
                continue
            if d == 1:
                yield G.Built(G.build(f, {}), f.level, f.name)
                continue
            for si in f.slots:
                slot = f.template[si]
                for child in rec(d - 1, slot.kind):
                    yield G.Built(G.build(f, {si: child}), f.level, f.name)
                if slot.kind == 'S':
                    for child in rec(d - 1, 'E'):
                        st = G.as_statement(child)
                        yield G.Built(G.build(f, {si: st}), f.level, f.name)
    for b in rec(depth, 'S'):
        yield b.lex


COMMENTED = [
    '/*c*/ { /*d*/ a; /*e*/ }',
    'function f() { // c\n return 1; /* m\n n */ }',
    'switch (a) { /*c*/ case 1: /*d*/ b; // e\n default: /*f*/ }',
    'x = { /*c*/ a: 1, // d\n b: { /*e*/ } };',
    "x = 'a\\\n   b'; { y = 'c\\\n d'; }",
    'if (a) { /* multi\n   line\n      comment */ b; }',
]


REUSE_FIRST = [
    '{ { a ; } }', 'function f ( ) { if ( a ) { b ; } }',
    'switch ( a ) { case 1 : { b ; } default : c ; }',
    'x = { p : { q : 1 } , r : function ( ) { return { } ; } } ;',
    'try { a ; } catch ( e ) { { b ; } } finally { c ; }',
    'while ( a ) { do { b ; } while ( c ) ; }',
]
REUSE_SECOND = ['a ;', '{ a ; }', 'function g ( ) { { b ; } }',
                'switch ( a ) { case 1 : b ; }']


TOWER_KINDS = [
    '{ %s }', 'function f ( ) { %s }', 'if ( a ) { %s } else { c ; }',
    'x = { p : function ( ) { %s } , q : 1 } ;',
    'switch ( a ) { case 1 : %s default : d ; }',
    'try { %s } catch ( e ) { } finally { }', 'while ( a ) { %s }',
]


def tower(kinds):
    t = 'b ;'
    for k in reversed(kinds):
        t = k % t
    return t


def run(tier, rep):
    items = []
    seen = set()
    for text, grp in P.texts_for(tier, with_leaves=False):
        if text in seen:
            continue
        seen.add(text)
        if grp in ('S0', 'S2-1'):
            items.append((text, P.INDENTS[:4], False))
        else:
            items.append((text, ['  ', '\t'] if tier == 'quick'
                          else P.INDENTS[:4], False))
    n3 = 0
    for lex in container_chains(3):
        t = G.render(lex)
        if t not in seen:
            seen.add(t)
            n3 += 1
            items.append((t, ['  ', ''] if tier == 'quick'
                          else P.INDENTS[:4], False))
    if tier == 'thorough':
        for lex in container_chains(4):
            t = G.render(lex)
            if t not in seen:
                seen.add(t)
                items.append((t, ['\t'], False))
    # towers: one kind of container nested in itself 1..14 deep, and every
    # alternation of two kinds 9 and 12 deep (a printer that prepares the
    # first few levels and derives the deeper ones is only seen here)
    ntower = 0
    for a_ in TOWER_KINDS:
        for d in range(1, 15):
            items.append((tower([a_] * d), P.INDENTS[:4], False))
            ntower += 1
        for b_ in TOWER_KINDS:
            if a_ != b_:
                for d in (9, 12):
                    items.append((tower(([a_, b_] * d)[:d]),
                                  P.INDENTS[:4], False))
                    ntower += 1
    rep.space('towers', kinds=TOWER_KINDS, max_depth=14, texts=ntower)
    for t in COMMENTED:
        items.append((t, P.INDENTS[:4], True))
    # a comment of each kind in every gap of the one-constructor programs
    ncomm = 0
    for lex in G.programs(1) + (G.chain_programs(2, G.CORE_FORMS)
                                if tier != 'quick' else []):
        for i in range(len(lex) + 1):
            for c in ('/*c*/', '//c\n'):
                t = ' '.join(list(lex[:i]) + [c] + list(lex[i:]))
                items.append((t, ['  ', ''] if tier == 'quick'
                              else P.INDENTS[:4], True))
                ncomm += 1
    total = P.run_cases(
        items, lambda acc, it: P.case_c20(acc, it[0], it[1], it[2]))
    # a printer object reused after an abandoned call
    reuse = []
    for t1 in REUSE_FIRST:
        for cut in range(1, 26 if tier == 'quick' else 41):
            for t2 in REUSE_SECOND:
                for ind in ('  ', '\t'):
                    reuse.append((t1, cut, t2, ind))
    total.merge(P.run_cases(
        reuse, lambda acc, it: P.case_c20_reuse(acc, *it)))
    # the same through the es5 helper object (indentation by keyword / by
    # position)
    hcases = []
    for lex in G.programs(1):
        t = G.render(lex)
        if '{' not in t:
            continue
        for ind in P.INDENTS[:4]:
            for style in ('keyword', 'positional'):
                hcases.append((t, ind, style))
    total.merge(P.run_cases(
        hcases, lambda acc, it: P.case_c20_helper(acc, *it)))
    rep.space('helper-entry', cases=len(hcases))
    rep.space('programs', count=len(items), container_chains_3=n3,
              printer_reuse_cases=len(reuse), commented_programs=ncomm)
    rep.cov['bounds'] = {'S2_k': 2, 'container_chain_depth':
                         3 if tier == 'quick' else 4,
                         'indents': P.INDENTS[:4]}
    P.finish(rep, total, (
        'every text of S0, S2(2) and every chain of 3 (thorough 4) nested '
        'body-carrying constructors x indentation strings; the pretty output '
        'is parsed by R2 and every line that starts a token must begin with '
        'indent x depth (R6: braces of blocks, function bodies, object '
        'literals, switch blocks, +1 in case/default bodies); non-trivial = '
        'output contains a brace'))
    rep.assumptions += ['depth calculator R6 over the reference parse of '
                        'the OUTPUT text; outputs R2 cannot read are left to '
                        'C01']


def replay(w):
    acc = P.Acc()
    if 'helper' in w:
        P.case_c20_helper(acc, w['text'], w['indent'], w['helper'])
    elif 'after_abandoned' in w:
        P.case_c20_reuse(acc, w['after_abandoned'], w['cut'], w['text'],
                         w['indent'])
    else:
        P.case_c20(acc, w['text'], [w['indent']],
                   w.get('with_comments', False))
    return [{'sig': s, 'detail': v[2]} for s, v in acc.bag.d.items()]
