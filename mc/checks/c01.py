# -*- coding: utf-8 -*-
"""C01 - pretty output parses back to the same tree and is a fixpoint."""
from __future__ import unicode_literals

from mc.checks import printers as P
from mc.space import grammar as G


def run(tier, rep):
    items = []
    for text, grp in P.texts_for(tier):
        if grp in ('S0', 'S2-1'):
            items.append((text, P.INDENTS))
        elif grp == 'S2-2':
            items.append((text, ['  ', '\t'] if tier == 'quick'
                          else P.INDENTS))
        else:
            items.append((text, ['  ']))
    if tier == 'thorough':
        seen = set(t for t, i in items)
        for lex in G.chain_programs(3, G.CORE_FORMS):
            t = G.render(lex)
            if t not in seen:
                seen.add(t)
                items.append((t, ['  ']))
    total = P.run_cases(items, lambda acc, it: P.case_c01(acc, it[0], it[1]))
    rep.space('programs', count=len(items))
    rep.cov['bounds'] = {'S2_k': 2 if tier == 'quick' else 3,
                         'indents': P.INDENTS}
    P.finish(rep, total, (
        'every text of S0 (repo test literals), S2(k) (all derivations with '
        '<= k constructors, k=3 as single-path chains below a core form set) and the adjacent-leaf '
        'product, each x indentation strings; states = programs, transitions '
        '= (program, indent) pairs printed and read back by the '
        'implementation and by the reference parser R2; non-trivial = the '
        'implementation accepts the input'))
    rep.assumptions += [
        'reference parser R2 stands for "any conforming ES5 parser"',
        'the tree the implementation built from the ORIGINAL text is taken '
        'as given here (its correctness is C03)']


def replay(w):
    acc = P.Acc()
    P.case_c01(acc, w['text'], [w['indent']])
    return [{'sig': s, 'detail': v[2]} for s, v in acc.bag.d.items()]
