# -*- coding: utf-8 -*-
"""
C09 - the source map decodes to exactly the positions the fragments carried.

Explorer E7 (fragment-stream enumerator) + the streams of the real printers;
oracle: the independent Source Map V3 decoder R5 (mc/refmodel/sourcemap.py).

What is enumerated (every case of every space, no sampling)

  S-sel   all sequences of length <= 3 (quick) / <= 4 (thorough) over the
          selected fragment alphabet ALPHABET (see `build_alphabet`)
  S-full  all sequences of length <= 2 over the FULL well-formed product
          text x position x name x source (see `build_full_alphabet`)
  P-one   every program of PROGRAMS x 3 printers, once through
          sourcemap.write and once through calmjs.parse.io.write
  P-cat   every ordered pair of PROGRAMS parsed as ONE source text
  P-two   every ordered pair (t1, t2) of PROGRAMS printed as
          chain(printer(t1), printer(t2)) with four sourcepath assignments
  P-three every ordered triple over the first programs, three sourcepaths
          (quick: pairs need one member among the first 24 programs, the
          extra path assignments both; see real_items)
each x normalize in {False, True}.

Well-formedness rules of a synthetic stream (taken from the docstring and the
comments of calmjs.parse.sourcemap.write):

  W1  lineno and colno are "both provided or none provided": (None, None) =
      unmapped, (0, 0) = to be inferred, or two positive 1-based integers.
  W2  an unmapped fragment carries neither a name nor a source (a 1-field
      segment cannot record them).
  W3  source is None (implicit: the source currently in effect), a string, or
      NotImplemented (recorded as 'about:invalid').
  W4  a line terminator is never split over two fragments (no fragment ending
      in CR directly followed by written text starting with LF); such
      sequences are skipped and counted.

What is judged (only what the property states)

  G1  the map decodes (segments of 1, 4 or 5 fields)
  G2  every source / name index is within range
  G3  generated columns are non-decreasing within a line
  G4  number of mapping lines == number of LF/CR/CRLF lines of the text
  G0  (precondition) the text written equals the concatenated fragment texts
  F   for each EXPLICITLY positioned fragment (lineno > 0 and colno > 0) of
      non-zero length, at the generated (line, column) computed from the
      fragment texts alone:
        normalize off: a segment starts exactly at that column;
        normalize on : the last segment at or before that column governs,
                       source column + distance (linear interpolation);
      it is a 4/5-field segment giving sources[i] == the fragment's source,
      line == lineno - 1, column == colno - 1 (fragments are 1-based, the map
      is 0-based: sourcemap.default_book), names[i] == its name if it has one.

Exemptions (nothing is demanded)

  * fragments without explicit position (unmapped, inferred);
  * zero-length fragments: they write nothing, so there is no generated
    position "at which the fragment was written" that belongs to them;
  * the continuation lines of a multi-line fragment (only its start);
  * the SOURCE of a fragment whose source is None when no mapped fragment
    carried a source before it, or when a fragment that produced no segment
    (unmapped / zero-length) carried a different source in between: "that
    fragment's source file" is not determined by the stream then;
  * whether an un-renamed fragment is governed by a segment carrying a name.
"""
from __future__ import unicode_literals

import io
import itertools
import json
import logging
import os

from mc.pool import pmap
from mc.report import VioBag
from mc.refmodel import sourcemap as R5

NEEDS_TABLES = True

# Opt-in extension, NOT part of the property and off in every registered
# command: also judge fragments whose position is "to be inferred" against the
# inference rule documented in sourcemap.write.  Used only to show that
# original_len mutants (invisible to the property, which exempts fragments
# without explicit position) are within reach of the machinery.
EXTENDED = os.environ.get('VERIF_C09_EXTENDED') == '1'

NI = '<NotImplemented>'         # JSON spelling of NotImplemented in witnesses
INVALID = 'about:invalid'       # documented replacement (sourcemap docstring)


# ---------------------------------------------------------------------------
# fragment alphabets
# ---------------------------------------------------------------------------

def build_alphabet():
    """
    The selected alphabet: 38 well-formed fragments (text, lineno, colno,
    name, source).  Every text kind, every position kind, both lengths of a
    renamed identifier (shorter than / as long as the original), two names,
    three sources + implicit, positions going forwards and backwards.
    """
    A = []
    N = None
    X = NotImplemented
    # unmapped
    for t in ('a', '\n', 'd\ne', '\r\n'):
        A.append((t, N, N, N, N))
    # inferred
    for t in ('a', 'bc', '\n', 'd\ne', '\r\n', 'x\x0cy', '\r'):
        A.append((t, 0, 0, N, N))
    A.append(('a', 0, 0, N, 'b.js'))
    A.append(('a', 0, 0, 'nm', N))
    # explicit, plain
    for p in ((1, 1), (1, 4), (2, 2), (1, 2)):
        A.append(('a', p[0], p[1], N, N))
    for p in ((1, 1), (1, 4), (2, 2), (1, 2)):
        A.append(('bc', p[0], p[1], N, 'a.js'))
    A.append(('a', 1, 1, N, 'b.js'))
    A.append(('a', 1, 4, N, 'b.js'))
    A.append(('a', 1, 4, N, X))
    A.append(('bc', 2, 2, N, X))
    # explicit, renamed
    for p in ((1, 1), (1, 4), (2, 2)):
        A.append(('a', p[0], p[1], 'nm', N))
    A.append(('bc', 1, 4, 'nm', 'a.js'))
    A.append(('a', 1, 2, 'q', N))
    A.append(('bc', 2, 2, 'q', 'b.js'))
    # explicit, texts with line structure
    A.append(('\n', 1, 4, N, N))
    A.append(('\r\n', 1, 1, N, 'a.js'))
    A.append(('d\ne', 1, 1, N, N))
    A.append(('d\ne', 2, 2, N, 'a.js'))
    A.append(('x\x0cy', 1, 4, N, N))
    # zero length
    A.append(('', 1, 4, 'nm', 'b.js'))
    A.append(('', N, N, N, N))
    assert len(set(A)) == len(A)
    return A


FULL_TEXTS = ('a', 'bc', '\n', 'd\ne', '\r\n', 'x\x0cy', '', '\r')
FULL_POS = ((None, None), (0, 0), (1, 1), (1, 4), (2, 2), (1, 2))
FULL_NAMES = (None, 'nm')
FULL_SOURCES = (None, 'a.js', 'b.js', NotImplemented)


def build_full_alphabet():
    """Every well-formed combination (rules W1-W3)."""
    A = []
    for t in FULL_TEXTS:
        for l, c in FULL_POS:
            if l is None:
                A.append((t, None, None, None, None))      # W2
                continue
            for n in FULL_NAMES:
                for s in FULL_SOURCES:
                    A.append((t, l, c, n, s))
    return A


# ---------------------------------------------------------------------------
# the model: generated positions from the fragment texts alone
# ---------------------------------------------------------------------------

_TEXTINFO = {}


def textinfo(t, cache=True):
    """(number of line terminators, length after the last one,
        starts with LF, ends with CR) - CRLF counts once."""
    r = _TEXTINFO.get(t)
    if r is None:
        n = 0
        col = 0
        i = 0
        L = len(t)
        while i < L:
            ch = t[i]
            if ch == '\r':
                if i + 1 < L and t[i + 1] == '\n':
                    i += 1
                n += 1
                col = 0
            elif ch == '\n':
                n += 1
                col = 0
            else:
                col += 1
            i += 1
        r = (n, col, t[:1] == '\n', t[-1:] == '\r')
        if cache:
            _TEXTINFO[t] = r
    return r


def splits_crlf(frags):
    """W4: CR at the end of one written text, LF at the start of the next."""
    prev_cr = False
    for f in frags:
        t = f[0]
        if not t:
            continue
        info = textinfo(t)
        if prev_cr and info[2]:
            return True
        prev_cr = info[3]
    return False


def is_explicit(f):
    l, c = f[1], f[2]
    return (isinstance(l, int) and isinstance(c, int) and
            not isinstance(l, bool) and l > 0 and c > 0)


def kind(f):
    """Abstract position class of a fragment, used in signatures."""
    if f is None:
        return 'start'
    if f[1] is None or f[2] is None:
        return 'N'
    return 'E' if is_explicit(f) else 'I'


def context(normalize, gline, gcol, prev):
    """
    Abstract local context of a judged fragment: normalize flag, whether it
    is the first text of a generated line, position class of the previous
    written fragment (N unmapped, I inferred, E explicit).
    """
    return '%s|%s|after-%s' % (
        'norm' if normalize else 'raw',
        'line-start' if (gcol == 0 and gline > 0) else 'mid-line',
        kind(prev))


def srckind(s):
    if s is None:
        return 'impl'
    if s is NotImplemented:
        return 'NI'
    return 'str'


class Counters(object):
    __slots__ = ('runs', 'frags', 'judged', 'exact', 'interp', 'abst_src',
                 'zero_len', 'nontrivial', 'named')

    def __init__(self):
        for k in self.__slots__:
            setattr(self, k, 0)

    def add(self, o):
        for k in self.__slots__:
            setattr(self, k, getattr(self, k) + getattr(o, k))

    def asdict(self):
        return dict((k, getattr(self, k)) for k in self.__slots__)


def judge(frags, normalize, text, mappings_str, sources, names, bag, witness,
          cnt):
    """
    frags: list of 5-tuples; text: what the library wrote; mappings_str /
    sources / names: the fields of the encoded source map.
    """
    n = 'norm' if normalize else 'raw'
    cnt.runs += 1
    cnt.frags += len(frags)

    # G0 precondition
    expect_text = ''.join(f[0] for f in frags)
    if text != expect_text:
        bag.add('C09|written-text-differs-from-fragments|%s' % n, witness,
                'wrote %r, fragments say %r' % (text[:80], expect_text[:80]))
        return
    # G1
    try:
        dec = R5.decode_mappings_absolute(mappings_str)
    except (ValueError, KeyError) as e:
        bag.add('C09|map-not-decodable|%s' % n, witness,
                '%r: %r' % (mappings_str, e))
        return
    # G4
    nlines = 1 + textinfo(text, cache=False)[0]
    if len(dec) != nlines:
        bag.add('C09|line-count|%s|%s' % (
            n, 'more' if len(dec) > nlines else 'fewer'), witness,
            'mapping lines %d, text lines %d (%r)' % (
                len(dec), nlines, mappings_str))
    # G2 / G3
    for li, line in enumerate(dec):
        last = 0
        for seg in line:
            if seg[0] < last:
                bag.add('C09|generated-column-decreases|%s' % n, witness,
                        'line %d: %r' % (li, line))
            last = seg[0]
            if seg[1] is not None and not (0 <= seg[1] < len(sources)):
                bag.add('C09|source-index-out-of-range|%s' % n, witness,
                        'line %d segment %r, %d sources' % (
                            li, seg, len(sources)))
            if seg[4] is not None and not (0 <= seg[4] < len(names)):
                bag.add('C09|name-index-out-of-range|%s' % n, witness,
                        'line %d segment %r, %d names' % (
                            li, seg, len(names)))

    # F: walk the fragments
    gline = gcol = 0
    cur_src = None        # source in effect (string) or None = undetermined
    ambiguous = False
    prev = None
    judged_here = 0
    inf_base = None       # extension only: (line, col, original length)
    for f in frags:
        t, l, c, name, src = f
        mapped = bool(t) and l is not None and c is not None
        # which source is this fragment's?
        if src is not None:
            s = INVALID if src is NotImplemented else src
            if mapped:
                cur_src = s
                ambiguous = False
                want_src = s
            else:
                if s != cur_src:
                    ambiguous = True
                want_src = s
        else:
            want_src = None if (ambiguous or cur_src is None) else cur_src
        if t and is_explicit(f):
            judged_here += 1
            cnt.judged += 1
            check_at(dec, normalize, gline, gcol, l, c, want_src, name, src,
                     sources, names, '',
                     context(normalize, gline, gcol, prev),
                     f, bag, witness, cnt)
            if want_src is None:
                cnt.abst_src += 1
            if name is not None:
                cnt.named += 1
        elif not t and is_explicit(f):
            cnt.zero_len += 1
        elif EXTENDED and mapped and inf_base is not None:
            # NOT part of the property: the library's documented rule for
            # fragments "to be inferred" (previous source column + previous
            # original length, same line)
            check_at(dec, normalize, gline, gcol, inf_base[0],
                     inf_base[1] + inf_base[2], want_src, name, src, sources,
                     names, 'ext-inferred-',
                     context(normalize, gline, gcol, prev), f, bag, witness,
                     cnt)
        # advance
        if t:
            nl, last, _, _ = textinfo(t)
            if nl:
                gline += nl
                gcol = last
            else:
                gcol += last
            prev = f
            if EXTENDED:
                single = not nl and len(t.splitlines()) == 1
                olen = len(name) if name else len(t)
                if not (mapped and single):
                    inf_base = None
                elif is_explicit(f):
                    inf_base = (l, c, olen)
                elif inf_base is not None:
                    inf_base = (inf_base[0], inf_base[1] + inf_base[2], olen)
    if judged_here:
        cnt.nontrivial += 1


def governing(line, normalize, gcol):
    """
    The segments a conforming consumer may use for generated column gcol:
    normalize off - those starting exactly there; normalize on - those at the
    greatest column <= gcol.  (Several segments at one column: any of them.)
    """
    if not normalize:
        return [seg for seg in line if seg[0] == gcol]
    best = None
    for seg in line:
        if seg[0] <= gcol and (best is None or seg[0] >= best):
            best = seg[0]
    if best is None:
        return []
    return [seg for seg in line if seg[0] == best]


def check_at(dec, normalize, gline, gcol, l, c, want_src, name, src, sources,
             names, prefix, ctx, f, bag, witness, cnt):
    line = dec[gline] if gline < len(dec) else []
    cands = governing(line, normalize, gcol)
    if not cands:
        bag.add('C09|%sno-governing-segment|%s' % (prefix, ctx), witness,
                'fragment %r written at %d:%d; line segments %r' % (
                    tuple_repr(f), gline, gcol, line))
        return
    fails = None
    for seg in cands:
        fl = []
        if seg[1] is None:
            fl.append(('governing-segment-unmapped', ''))
        else:
            d = gcol - seg[0]
            if want_src is None:
                pass
            elif not (0 <= seg[1] < len(sources)) or \
                    sources[seg[1]] != want_src:
                fl.append(('source', srckind(src)))
            if seg[2] != l - 1:
                fl.append(('line', ''))
            if seg[3] + d != c - 1:
                fl.append(('column', ''))
            if name is not None:
                if seg[4] is None:
                    fl.append(('name-missing', ''))
                elif not (0 <= seg[4] < len(names)) or \
                        names[seg[4]] != name:
                    fl.append(('name', ''))
        if not fl:
            if not prefix:
                if seg[0] == gcol:
                    cnt.exact += 1
                else:
                    cnt.interp += 1
            return
        fails = (seg, fl)
    seg, fl = fails
    for clause, extra in fl:
        bag.add('C09|%s%s|%s%s' % (
            prefix, clause, ctx, ('|' + extra) if extra else ''), witness,
            'fragment %r written at %d:%d, expected source position %d:%d '
            '(1-based), governed by %r (sources %r names %r)' % (
                tuple_repr(f), gline, gcol, l, c, seg, sources, names))


def tuple_repr(f):
    return tuple(NI if x is NotImplemented else x for x in f)


# ---------------------------------------------------------------------------
# running the library
# ---------------------------------------------------------------------------

def quiet_logging():
    for name in ('calmjs.parse.sourcemap', 'calmjs.parse'):
        logging.getLogger(name).disabled = True
    logging.getLogger('calmjs.parse.sourcemap').setLevel(logging.CRITICAL + 1)


def run_write(frags, normalize, bag, witness, cnt):
    """sourcemap.write + encode_sourcemap on a fragment list, then judge."""
    from calmjs.parse import sourcemap
    from calmjs.parse.ruletypes import StreamFragment
    stream = io.StringIO()
    n = 'norm' if normalize else 'raw'
    try:
        mappings, sources, names = sourcemap.write(
            (StreamFragment(*f) for f in frags), stream, normalize=normalize)
        sm = sourcemap.encode_sourcemap('out.js', mappings, sources, names)
        ms = sm['mappings']
        srcs = list(sm['sources'])
        nms = list(sm['names'])
    except Exception as e:
        bag.add('C09|write-raises-%s|%s' % (type(e).__name__, n), witness,
                repr(e))
        cnt.runs += 1
        return
    judge(frags, normalize, stream.getvalue(), ms, srcs, nms, bag, witness,
          cnt)


def enc_frags(frags):
    return [[NI if x is NotImplemented else x for x in f] for f in frags]


def dec_frags(js):
    return [tuple(NotImplemented if x == NI else x for x in f) for f in js]


# ---------------------------------------------------------------------------
# real printer streams
# ---------------------------------------------------------------------------

# (text, with_comments)
PROGRAMS = [
    ("var a = 1;", False),
    ("var first, second = 2, third;", False),
    (";", False),
    ("{ alpha; beta; }", False),
    ("value = base + count * delta;", False),
    ("if (a) b;", False),
    ("if (cond) { yes; } else { no; }", False),
    ("if (a) b; else if (c) d; else e;", False),
    ("for (var i = 0; i < 10; i++) { work(i); }", False),
    ("for (;;) { break; }", False),
    ("for (i = 0, j = 1; i < j; i++, j--) ;", False),
    ("for (var key in obj) { visit(key); }", False),
    ("for (key in obj) continue;", False),
    ("while (count) { count--; }", False),
    ("do { count++; } while (count < 5);", False),
    ("outer: for (;;) { inner: for (;;) { continue outer; break inner; } }",
     False),
    ("function empty() {}", False),
    ("function add(first, second) { return first + second; }", False),
    ("var fact = function named(arg) { return named(arg - 1); };", False),
    ("(function () { var local = 1; return local; })();", False),
    ("switch (sel) { case 1: one; break; case 2: default: other; }", False),
    ("try { risky(); } catch (err) { handle(err); }", False),
    ("try { risky(); } finally { done(); }", False),
    ("try { risky(); } catch (e) { handle(e); } finally { done(); }", False),
    ("throw new Error('boom');", False),
    ("with (scope) { member; }", False),
    ("debugger;", False),
    ("function noval() { return; }", False),
    ("var obj = {plain: 1, 'quoted': 2, 3: third};", False),
    ("var acc = {get x() { return 1; }, set x(value) { this._x = value; }};",
     False),
    ("var arr = [1, , 3, [4, 5]];", False),
    ("var text = 'line one \\\nline two';", False),
    ("var text = \"cr\\\r\nlf\" + 'tail';", False),
    ("pick = cond ? yes : no;", False),
    ("both = left || right && last;", False),
    ("x = !a, y = -b, z = typeof c, void 0, delete o.p;", False),
    ("x = a++ + ++b - c-- - --d;", False),
    ("x = a in b; y = a instanceof B;", False),
    ("found = /ab+c/gi.test(subject);", False),
    ("made = new Foo(1, 2).bar[baz](qux);", False),
    ("made = new Foo;", False),
    ("x += 1; y -= 2; z *= 3; w /= 4; v %= 5; u <<= 1; t >>= 1; r >>>= 1; "
     "q &= 1; p |= 1; n ^= 1;", False),
    ("x = (a, b);", False),
    ("x = a.b.c; y = a['b']; z = a[0][1];", False),
    ("x = this; y = null; z = true; w = false;", False),
    ("x = 0x1F + 1.5e3 + .5;", False),
    ("function outer(p) { function inner(q) { return p + q; } return inner; }",
     False),
    ("var total = 0;\nfor (var idx = 0; idx < 3; idx++) {\n  total += idx;\n}"
     "\n", False),
    ("if (a) {\n  b();\n}\nelse {\n  c();\n}", False),
    ("var longName = 1, otherName = longName + 1;\n"
     "function useThem(paramOne) {\n"
     "  return longName + otherName + paramOne;\n}", False),
    ("sum = left\n    + right;", False),
    ("x = {}; y = [];", False),
    ("x = function () {};", False),
    ("'use strict';", False),
    ("x = a < b, a > b, a <= b, a >= b, a == b, a != b, a === b, a !== b;",
     False),
    ("x = a & b | c ^ d, ~e, a << 1, a >> 2, a >>> 3;", False),
    ("x = a / b / c % d;", False),
    ("do step(); while (more)", False),
    ("var one = 1\nvar two = 2\n", False),
    ("label: stmt;", False),
    ("if (a) ; else ;", False),
    ("var shadow; try { } catch (shadow) { var inner = shadow; }", False),
    ("\t\tvar   spaced   =   1 ;", False),
    ("x = \"str\\\"esc\" + 'it\\'s';", False),
    ("while (1) if (a) break; else continue;", False),
    ("var maker = function () { return function () { return arguments; }; };",
     False),
    ("/* block\n comment */ var commented = 1; // tail\nvar next = 2;", True),
    ("function doc(param) {\n  // inside\n  return param; /* after */\n}",
     True),
]

PRINTERS = ('pretty', 'minify', 'obfuscate')

# sourcepath assignments of a two-tree chain (None = no sourcepath: the
# printers then emit NotImplemented)
PATHS2 = (('a.js', 'b.js'), ('a.js', 'a.js'), (None, 'b.js'), ('a.js', None))
PATHS3 = (('a.js', 'b.js', 'c.js'), ('a.js', 'b.js', 'a.js'))


def make_printer(name):
    from calmjs.parse.unparsers.es5 import pretty_printer, minify_printer
    if name == 'pretty':
        return pretty_printer()
    if name == 'minify':
        return minify_printer()
    if name == 'obfuscate':
        return minify_printer(obfuscate=True, obfuscate_globals=True)
    raise ValueError(name)


_TREES = {}


def parse_program(text, with_comments, sourcepath, slot=None):
    """
    Parse with the public parse() (fresh Parser).  With `slot` the tree is
    cached per (program, slot) in this process - walking a tree with the
    printers does not modify it (verified at development time: repeated
    walks by all three printers give identical streams) - and only its
    sourcepath attribute is set per use.  Different slots are different tree
    objects, so t1 and t2 of a chain never alias.
    """
    from calmjs.parse.parsers.es5 import parse
    if slot is None:
        tree = parse(text, with_comments=with_comments)
    else:
        key = (text, with_comments, slot)
        tree = _TREES.get(key)
        if tree is None:
            tree = _TREES[key] = parse(text, with_comments=with_comments)
    tree.sourcepath = sourcepath
    return tree


def printed_fragments(printer, trees):
    out = []
    for t in trees:
        out.extend(tuple(f) for f in printer(t))
    return out


def run_real(item, bag, cnt, stats, only=None):
    """
    item: dict(mode, programs=[index, ...], paths=[...]); every printer x
    normalize is run on it (or just `only` = (printer, normalize)).
    modes: 'write' (sourcemap.write over the chained printer streams), 'io'
           (calmjs.parse.io.write with a sourcemap stream), 'cat' (the texts
           joined by LF and parsed as one source, then sourcemap.write)
    """
    from calmjs.parse import sourcemap
    from calmjs.parse import io as cio
    from calmjs.parse.ruletypes import StreamFragment
    progs = [PROGRAMS[p] for p in item['programs']]
    paths = list(item['paths'])
    mode = item['mode']
    try:
        if mode == 'cat':
            text = '\n'.join(p[0] for p in progs)
            wc = any(p[1] for p in progs)
            trees = [parse_program(text, wc, paths[0])]
        else:
            trees = [parse_program(p[0], p[1], sp, slot)
                     for slot, (p, sp) in enumerate(zip(progs, paths))]
    except Exception as e:
        stats['unparsable'] = stats.get('unparsable', 0) + 1
        if mode != 'cat':
            stats.setdefault('errors', []).append(
                'program does not parse: %r: %r' % (item, e))
        return
    for pname in PRINTERS:
        if only is not None and only[0] != pname:
            continue
        printer = make_printer(pname)
        try:
            frags = printed_fragments(printer, trees)
        except Exception as e:
            stats.setdefault('errors', []).append(
                'printer %s raised on %r: %r' % (pname, item, e))
            continue
        if splits_crlf(frags):
            stats['crlf_split'] = stats.get('crlf_split', 0) + 1
            continue
        for normalize in (False, True):
            if only is not None and only[1] != normalize:
                continue
            n = 'norm' if normalize else 'raw'
            witness = dict(item)
            witness['printer'] = pname
            witness['normalize'] = normalize
            if mode == 'io':
                out = io.StringIO()
                smap = io.StringIO()
                captured = []

                def recording(node):
                    # io.write walks the printer itself; record what it is fed
                    for f in printer(node):
                        captured.append(tuple(f))
                        yield f
                try:
                    cio.write(recording, trees, out, smap,
                              sourcemap_normalize_mappings=normalize,
                              source_mapping_url=None)
                    sm = json.loads(smap.getvalue())
                    ms, srcs, nms = sm['mappings'], sm['sources'], sm['names']
                except Exception as e:
                    bag.add('C09|io-write-raises-%s|%s' % (
                        type(e).__name__, n), witness, repr(e))
                    continue
                judge(captured, normalize, out.getvalue(), ms, srcs, nms, bag,
                      witness, cnt)
                continue
            stream = io.StringIO()
            try:
                mappings, sources, names = sourcemap.write(
                    (StreamFragment(*f) for f in frags), stream,
                    normalize=normalize)
                sm = sourcemap.encode_sourcemap(
                    'out.js', mappings, sources, names)
            except Exception as e:
                bag.add('C09|write-raises-%s|%s' % (type(e).__name__, n),
                        witness, repr(e))
                continue
            judge(frags, normalize, stream.getvalue(), sm['mappings'],
                  list(sm['sources']), list(sm['names']), bag, witness, cnt)


def real_items(tier):
    idx = list(range(len(PROGRAMS)))
    items = []
    for i in idx:
        for sp in ('a.js', None):
            items.append(dict(mode='write', programs=[i], paths=[sp]))
        items.append(dict(mode='io', programs=[i], paths=['a.js']))
    one = len(items)
    # `sub`: thorough - every program; quick - the first 24 programs
    sub = idx if tier == 'thorough' else idx[:24]
    # one source text made of two programs: every ordered pair with at
    # least one member in `sub`
    for i in idx:
        for j in idx:
            if i in sub or j in sub:
                items.append(dict(mode='cat', programs=[i, j],
                                  paths=['a.js']))
    cat = len(items) - one
    # two sources: every ordered pair with at least one member in `sub`,
    # paths (a.js, b.js); the other three path assignments and io.write on
    # every ordered pair of `sub`
    for i in idx:
        for j in idx:
            for k, paths in enumerate(PATHS2):
                if not (i in sub or j in sub):
                    continue
                if k and not (i in sub and j in sub):
                    continue
                items.append(dict(mode='write', programs=[i, j],
                                  paths=list(paths)))
    for i in sub:
        for j in sub:
            items.append(dict(mode='io', programs=[i, j],
                              paths=['a.js', 'b.js']))
    two = len(items) - one - cat
    # three sources: every ordered triple over a sub-list that includes the
    # programs with renamed parameters / multi-line tokens
    sub3 = idx[:14] if tier == 'thorough' else idx[:6]
    sub3 = sub3 + [e for e in (17, 31, 49) if e not in sub3]
    for i in sub3:
        for j in sub3:
            for k in sub3:
                for paths in PATHS3:
                    items.append(dict(mode='write', programs=[i, j, k],
                                      paths=list(paths)))
    three = len(items) - one - cat - two
    return items, dict(one=one, cat=cat, two=two, three=three)


# ---------------------------------------------------------------------------
# run
# ---------------------------------------------------------------------------

def enumerate_from_prefix(A, prefix, maxlen):
    """prefix itself, then all extensions up to maxlen (fixed order)."""
    yield prefix
    if len(prefix) >= maxlen:
        return
    idx = range(len(A))
    for k in range(1, maxlen - len(prefix) + 1):
        for rest in itertools.product(idx, repeat=k):
            yield prefix + rest


def run(tier, rep):
    quiet_logging()
    A = build_alphabet()
    F = build_full_alphabet()
    maxlen = 3 if tier == 'quick' else 4
    full_len = 2

    def synth_worker(alpha, mlen):
        def work(prefixes, idx):
            bag = VioBag()
            cnt = Counters()
            nseq = skipped = 0
            for prefix in prefixes:
                for seq in enumerate_from_prefix(alpha, prefix, mlen):
                    frags = [alpha[i] for i in seq]
                    if splits_crlf(frags):
                        skipped += 1
                        continue
                    nseq += 1
                    for nz in (False, True):
                        run_write(frags, nz, bag,
                                  {'frags': enc_frags(frags),
                                   'normalize': nz}, cnt)
            return nseq, skipped, cnt, bag
        return work

    total = Counters()
    states = 0

    def collect(results, name, alpha, mlen, extra_seqs):
        nseq = skipped = 0
        c = Counters()
        for a, b, cnt, bag in results:
            nseq += a
            skipped += b
            c.add(cnt)
            rep.bag.merge(bag)
        rep.space(name, alphabet=len(alpha), max_len=mlen,
                  sequences=nseq + extra_seqs, skipped_W4=skipped,
                  runs=c.runs, judged_fragments=c.judged,
                  exact=c.exact, interpolated=c.interp,
                  source_abstained=c.abst_src, zero_length_exempt=c.zero_len)
        total.add(c)
        return nseq

    # S-sel: prefixes of length 2 are the work items; lengths 0 and 1 here
    bag = VioBag()
    cnt = Counters()
    short = [()] + [(i,) for i in range(len(A))]
    for seq in short:
        frags = [A[i] for i in seq]
        for nz in (False, True):
            run_write(frags, nz, bag, {'frags': enc_frags(frags),
                                       'normalize': nz}, cnt)
    rep.bag.merge(bag)
    total.add(cnt)
    states += len(short)
    prefixes = list(itertools.product(range(len(A)), repeat=2))
    states += collect(pmap(synth_worker(A, maxlen), prefixes), 'S-sel', A,
                      maxlen, len(short))

    # S-full: all sequences of length <= 2 over the full product
    bag = VioBag()
    cnt = Counters()
    for i in range(len(F)):
        for nz in (False, True):
            run_write([F[i]], nz, bag, {'frags': enc_frags([F[i]]),
                                        'normalize': nz}, cnt)
    rep.bag.merge(bag)
    total.add(cnt)
    states += len(F)
    prefixes = list(itertools.product(range(len(F)), repeat=2))
    states += collect(pmap(synth_worker(F, full_len), prefixes), 'S-full', F,
                      full_len, len(F))

    # real printer streams
    items, split = real_items(tier)

    def real_worker(its, idx):
        bag = VioBag()
        cnt = Counters()
        stats = {}
        for item in its:
            run_real(item, bag, cnt, stats)
        return cnt, stats, bag
    rc = Counters()
    unparsable = crlf = 0
    for cnt, stats, bag in pmap(real_worker, items):
        rc.add(cnt)
        rep.bag.merge(bag)
        unparsable += stats.get('unparsable', 0)
        crlf += stats.get('crlf_split', 0)
        for e in stats.get('errors', []):
            rep.harness_errors.append(e)
    total.add(rc)
    states += rc.runs // 2
    rep.space('P-real', programs=len(PROGRAMS), printers=list(PRINTERS),
              items=len(items), single=split['one'],
              concatenated_one_source=split['cat'],
              two_sources=split['two'], three_sources=split['three'],
              runs=rc.runs, judged_fragments=rc.judged, exact=rc.exact,
              interpolated=rc.interp, source_abstained=rc.abst_src,
              renamed_fragments=rc.named,
              skipped_unparsable_concatenations=unparsable,
              skipped_W4=crlf)

    rep.cov['states'] = states
    rep.cov['transitions'] = total.frags
    rep.cov['traces_validated_against_impl'] = total.runs
    rep.cov['evaluations'] = total.runs
    rep.cov['distinct_nontrivial'] = total.nontrivial
    rep.outcome({
        'explicit fragment governed by exact segment': total.exact,
        'explicit fragment governed by interpolation (distance > 0)':
            total.interp,
        'explicit fragment, source not determined (abstained on source)':
            total.abst_src,
        'explicit zero-length fragment (exempt)': total.zero_len,
        'explicit fragments judged': total.judged,
        'renamed fragments judged': total.named,
    })
    rep.cov['rule'] = (
        'plain products: every index sequence up to the length bound over the '
        'listed alphabets; every program / ordered pair / ordered triple of '
        'the fixed program list x printer x sourcepath assignment; each x '
        'normalize off/on.  states = distinct fragment streams, transitions = '
        'fragments consumed by sourcemap.write, non-trivial = runs with at '
        'least one explicitly positioned non-empty fragment judged')
    rep.cov['bounds'] = {
        'selected_alphabet': len(A), 'selected_max_len': maxlen,
        'full_alphabet': len(F), 'full_max_len': full_len,
        'programs': len(PROGRAMS)}
    rep.sample([{'frags': enc_frags([A[13], A[28], A[6], A[19]]),
                 'normalize': True},
                {'frags': enc_frags([A[35], A[8], A[22]]),
                 'normalize': False}] + items[::max(1, len(items) // 6)][:6])
    rep.assumptions += [
        'reference decoder mc/refmodel/sourcemap.py written from the Source '
        'Map V3 text is correct',
        'columns are counted in code points (all texts used are BMP/ASCII, '
        'so UTF-16 code units coincide)',
        'zero-length fragments and fragments without explicit position are '
        'exempt; a None source is judged only when a preceding mapped '
        'fragment determined the source in effect',
        'streams splitting CRLF over two fragments are outside the '
        'well-formed space (W4) and are skipped (counted)',
        'printer streams are represented by the fixed program list and its '
        'ordered pairs/triples, not by all programs',
    ]


def replay(w):
    quiet_logging()
    bag = VioBag()
    cnt = Counters()
    if 'frags' in w:
        run_write(dec_frags(w['frags']), bool(w['normalize']), bag, w, cnt)
    else:
        stats = {}
        item = {'mode': w['mode'], 'programs': w['programs'],
                'paths': w['paths']}
        run_real(item, bag, cnt, stats,
                 only=(w['printer'], bool(w['normalize'])))
        if stats.get('errors'):
            raise RuntimeError(stats['errors'][0])
    return [{'sig': s, 'detail': v[2]} for s, v in sorted(bag.d.items())]
