# -*- coding: utf-8 -*-
"""
Shared machinery of C01 (pretty round trip / fixpoint), C02 (minified round
trip / no fusion / droppable semicolons) and C20 (indentation by depth).

Explorer E2: every program of S0 u S2(k) u S2xLeaf x printer configuration is
printed by the real printers and the output is read back by the
implementation AND by the reference parser R2.
"""
from __future__ import unicode_literals

import collections

from mc import impl as I
from mc import judge
from mc.pool import pmap
from mc.refmodel import parser as R2
from mc.refmodel import tree as R3
from mc.report import VioBag
from mc.space import grammar as G

INDENTS = ['  ', '\t', ' ', '', '    ']
INDENT_NAME = {'  ': 'two', '\t': 'tab', ' ': 'one', '': 'empty',
               '    ': 'four'}


def cclass(ch):
    if ch == '':
        return 'END'
    if ch.isalpha() or ord(ch) > 127:
        return 'L'
    if ch.isdigit():
        return 'D'
    if ch in '$_':
        return ch
    if ch == '\n':
        return 'NL'
    if ch.isspace():
        return 'SP'
    return ch


def first_difference(a, b):
    n = min(len(a), len(b))
    for i in range(n):
        if a[i] != b[i]:
            return i
    return n


def reparse_sig(prop, clause, text_out, out2, ref):
    """signature for a printed text that is not read back as expected"""
    if out2 is not None and out2.kind != 'accept':
        if ref.verdict == 'accept':
            off = judge.impl_error_offset(text_out, out2.msg or '')
            ctx = judge.ctx_at(text_out, ref, off, fine=True) if off is not None \
                else 'end'
        elif ref.verdict == 'reject':
            ctx = 'ref-also-rejects:' + ref.reason
        else:
            ctx = 'ref-abstains'
        return '%s|%s|impl-rejects-output|%s|%s' % (
            prop, clause, judge.msg_kind(out2.msg or out2.exc_type or ''),
            ctx)
    return None


class Acc(object):
    def __init__(self):
        self.bag = VioBag()
        self.out = collections.Counter()
        self.cases = 0
        self.nontrivial = 0
        self.traces = 0
        self.samples = []
        self.kinds = collections.Counter()

    def merge(self, o):
        self.bag.merge(o.bag)
        self.out.update(o.out)
        self.cases += o.cases
        self.nontrivial += o.nontrivial
        self.traces += o.traces
        self.kinds.update(o.kinds)
        if len(self.samples) < 30:
            self.samples.extend(o.samples[:2])


def node_kinds(tree, c):
    if isinstance(tree, tuple):
        if isinstance(tree, R3.N):
            c[tree[0]] += 1
            for k, v in tree[1]:
                node_kinds(v, c)
        else:
            for x in tree:
                node_kinds(x, c)


def input_disputed(acc, text, out):
    """The printers are judged on trees the parser built *correctly*:
    whether the tree of the ORIGINAL text is the right one is C03's question,
    and a defect there is not reported a second time under C01/C02."""
    ref0 = R2.parse(text)
    if ref0.verdict == 'reject' or (ref0.verdict == 'accept' and
                                    ref0.neutral != out.tree):
        acc.out['skipped: tree of the input disputed by the reference '
                '(C03)'] += 1
        return True
    return False


# ------------------------------------------------------------------ C01
def case_c01(acc, text, indents, tag=''):
    from calmjs.parse.unparsers.es5 import pretty_print
    out = I.run_parse(text, keep_node=True)
    acc.cases += 1
    if out.kind != 'accept':
        acc.out['input-not-accepted'] += 1
        return
    if input_disputed(acc, text, out):
        return
    acc.nontrivial += 1
    node_kinds(out.tree, acc.kinds)
    for ind in indents:
        w = {'text': text, 'indent': ind}
        try:
            P = pretty_print(out.node, indent_str=ind)
        except Exception as e:
            acc.bag.add('C01|print-raises|%s' % type(e).__name__, w, repr(e))
            continue
        out2 = I.run_parse(P, keep_node=True)
        ref = R2.parse(P)
        acc.traces += 1
        acc.out['impl=%s ref=%s' % (out2.kind, ref.verdict)] += 1
        if len(acc.samples) < 2:
            acc.samples.append({'text': text, 'indent': ind, 'pretty': P})
        s = reparse_sig('C01', 'reparse', P, out2, ref)
        if s:
            acc.bag.add(s, w, 'output %r: %s' % (P, out2.msg))
        elif out2.tree != out.tree:
            acc.bag.add('C01|reparse|impl-tree-differs|%s' % R3.diff_kind(
                out.tree, out2.tree), w,
                'output %r: %s' % (P, R3.first_diff(out.tree, out2.tree)))
        if ref.verdict == 'reject':
            acc.bag.add('C01|conforming-reader|rejects-output|%s|%s' % (
                ref.reason, judge.ctx_at(P, ref, ref.offset, fine=True)
                if ref.tok is not None else 'lexical'), w,
                'output %r rejected at offset %d' % (P, ref.offset))
        elif ref.verdict == 'accept' and ref.neutral != out.tree:
            acc.bag.add('C01|conforming-reader|tree-differs|%s' % (
                R3.diff_kind(out.tree, ref.neutral)), w,
                'output %r: %s' % (P, R3.first_diff(out.tree, ref.neutral)))
        if out2.kind == 'accept':
            try:
                P2 = pretty_print(out2.node, indent_str=ind)
            except Exception as e:
                acc.bag.add('C01|print-raises|%s' % type(e).__name__, w,
                            repr(e))
                continue
            if P2 != P:
                i = first_difference(P, P2)
                acc.bag.add('C01|not-fixpoint|%s->%s' % (
                    cclass(P[i:i + 1]), cclass(P2[i:i + 1])), w,
                    'first %r second %r' % (P, P2))


# ------------------------------------------------------------------ C02
def fragment_clause(frags, M, ref):
    """every token fragment is exactly one R1 token of the output (comma runs
    of elisions excepted).  Returns None or (sigpart, detail)."""
    starts = dict((t.start, t) for t in ref.tokens)
    pos = 0
    for f in frags:
        txt = f.text
        core = txt.strip()
        lead = len(txt) - len(txt.lstrip())
        if core:
            s = pos + lead
            e = s + len(core)
            t = starts.get(s)
            if t is None:
                return ('fragment-not-at-token-start|%s' % cclass(core[:1]),
                        'fragment %r at %d' % (txt, s))
            if t.end != e:
                if set(core) == set(','):
                    ok = all(starts.get(s + k) is not None and
                             starts[s + k].end == s + k + 1
                             for k in range(len(core)))
                    if ok:
                        pos += len(txt)
                        continue
                return ('fragment-is-not-one-token|%s|%s' % (
                    judge.tclass(t, True), 'longer' if t.end > e else 'shorter'),
                    'fragment %r at %d but token %r' % (txt, s, t.value))
        pos += len(txt)
    return None


def case_c02(acc, text, tag=''):
    from calmjs.parse.unparsers.es5 import minify_printer
    out = I.run_parse(text, keep_node=True)
    acc.cases += 1
    if out.kind != 'accept':
        acc.out['input-not-accepted'] += 1
        return
    if input_disputed(acc, text, out):
        return
    acc.nontrivial += 1
    node_kinds(out.tree, acc.kinds)
    want = R3.normalize(out.tree, strings=True, drop_empty=True)
    texts = {}
    for drop in (False, True):
        w = {'text': text, 'drop_semi': drop}
        dn = 'drop' if drop else 'keep'
        try:
            frags = list(minify_printer(drop_semi=drop)(out.node))
            M = ''.join(f.text for f in frags)
        except Exception as e:
            acc.bag.add('C02|print-raises|%s' % type(e).__name__, w, repr(e))
            continue
        texts[drop] = M
        out2 = I.run_parse(M)
        ref = R2.parse(M)
        acc.traces += 1
        acc.out['%s impl=%s ref=%s' % (dn, out2.kind, ref.verdict)] += 1
        if len(acc.samples) < 2:
            acc.samples.append({'text': text, 'drop_semi': drop,
                                'minified': M})
        s = reparse_sig('C02', dn, M, out2, ref)
        if s:
            acc.bag.add(s, w, 'output %r: %s' % (M, out2.msg))
        elif out2.kind == 'accept':
            got = R3.normalize(out2.tree, strings=True, drop_empty=True)
            if got != want:
                acc.bag.add('C02|%s|impl-tree-differs|%s' % (
                    dn, R3.diff_kind(want, got)), w,
                    'output %r: %s' % (M, R3.first_diff(want, got)))
        if ref.verdict == 'reject':
            acc.bag.add('C02|%s|conforming-reader-rejects-output|%s|%s' % (
                dn, ref.reason, judge.ctx_at(M, ref, ref.offset, fine=True)
                if ref.tok is not None else 'lexical'), w,
                'output %r rejected at offset %d' % (M, ref.offset))
        elif ref.verdict == 'accept':
            got = R3.normalize(ref.neutral, strings=True, drop_empty=True)
            if got != want:
                acc.bag.add('C02|%s|conforming-reader-tree-differs|%s' % (
                    dn, R3.diff_kind(want, got)), w,
                    'output %r: %s' % (M, R3.first_diff(want, got)))
            fc = fragment_clause(frags, M, ref)
            if fc:
                acc.bag.add('C02|%s|%s' % (dn, fc[0]), w,
                            'output %r: %s' % (M, fc[1]))


# ------------------------------------------------------------------ C20
BRACED = ('Block', 'CaseBlock', 'Object', 'FuncDecl', 'FuncExpr',
          'GetPropAssign', 'SetPropAssign')


def depth_intervals(tree):
    """[(start, end, kind)] - each interval adds one level of nesting"""
    out = []

    def rec(v):
        if isinstance(v, R2.RNode):
            if v.kind in BRACED:
                opens = [o for t, o in v.toks if t == '{']
                closes = [o for t, o in v.toks if t == '}']
                if opens and closes:
                    out.append((opens[-1] + 1, closes[-1], v.kind))
            elif v.kind in ('Case', 'Default'):
                colon = [o for t, o in v.toks if t == ':']
                if colon:
                    out.append((colon[-1] + 1, v.end, v.kind))
            for k, x in v.fields:
                rec(x)
        elif isinstance(v, (list, tuple)):
            for x in v:
                rec(x)
    rec(tree)
    return out


def check_indentation(P, ind, ref):
    """R6.  Returns list of (sigpart, detail)."""
    res = []
    if P == '':
        return res
    if not P.endswith('\n'):
        res.append(('no-final-newline', repr(P[-10:])))
    elif P.endswith('\n\n'):
        res.append(('several-final-newlines', repr(P[-10:])))
    iv = depth_intervals(ref.tree)
    starts = set(t.start for t in ref.tokens)
    cstarts = set(c[0] for c in ref.lexer.all_comments())
    # offsets covered by a multi-line token or comment (continuation lines)
    covered = []
    for t in ref.tokens:
        if '\n' in P[t.start:t.end]:
            covered.append((t.start, t.end))
    for c in ref.lexer.all_comments():
        if '\n' in P[c[0]:c[1]]:
            covered.append((c[0], c[1]))
    off = 0
    for line in P.split('\n'):
        stripped = line.lstrip(' \t')
        lead = line[:len(line) - len(stripped)]
        first = off + len(lead)
        line_off = off
        off += len(line) + 1
        if stripped == '':
            continue
        if any(a < line_off < b for a, b in covered):
            continue    # continuation of a multi-line token: exempt
        if first not in starts and first not in cstarts:
            # first visible character is inside a token (not a token start)
            continue
        inside = [k for a, b, k in iv if a <= first < b]
        depth = len(inside)
        if lead != ind * depth:
            res.append(('indent-mismatch|container=%s|depth=%d|got=%s' % (
                inside[-1] if inside else 'top', min(depth, 4),
                'more' if len(lead) > len(ind * depth) else
                ('less' if len(lead) < len(ind * depth) else 'different')),
                'line %r expected prefix %r' % (line, ind * depth)))
    return res


def case_c20(acc, text, indents, with_comments=False):
    from calmjs.parse.unparsers.es5 import pretty_print
    out = I.run_parse(text, with_comments=with_comments, keep_node=True)
    acc.cases += 1
    if out.kind != 'accept':
        acc.out['input-not-accepted'] += 1
        return
    node_kinds(out.tree, acc.kinds)
    counted = False
    for ind in indents:
        w = {'text': text, 'indent': ind, 'with_comments': with_comments}
        try:
            P = pretty_print(out.node, indent_str=ind)
        except Exception as e:
            acc.out['print-raises'] += 1
            continue
        ref = R2.parse(P)
        if ref.verdict != 'accept':
            acc.out['output-not-readable-by-reference (C01 reports it)'] += 1
            continue
        acc.traces += 1
        if '{' in P and not counted:
            counted = True
            acc.nontrivial += 1
        acc.out['judged'] += 1
        if len(acc.samples) < 2:
            acc.samples.append({'text': text, 'indent': ind, 'pretty': P})
        for sp, detail in check_indentation(P, ind, ref):
            acc.bag.add('C20|%s|indent=%s' % (sp, INDENT_NAME.get(ind, '?')),
                        w, 'output %r: %s' % (P, detail))


def case_c20_helper(acc, text, ind, style):
    """the `pretty_print` attribute of the package-level `es5` helper,
    applied to source text, indentation string by keyword or by position"""
    from calmjs.parse import es5 as helper
    acc.cases += 1
    try:
        if style == 'keyword':
            P = helper.pretty_print(text, indent_str=ind)
        else:
            P = helper.pretty_print(text, ind)
    except Exception as e:
        acc.out['helper-raises:' + type(e).__name__] += 1
        return
    ref = R2.parse(P)
    if ref.verdict != 'accept':
        acc.out['output-not-readable-by-reference (C01 reports it)'] += 1
        return
    acc.traces += 1
    if '{' in P:
        acc.nontrivial += 1
    acc.out['judged-through-helper'] += 1
    w = {'text': text, 'indent': ind, 'helper': style}
    for sp, detail in check_indentation(P, ind, ref):
        acc.bag.add('C20|helper-%s|%s|indent=%s' % (
            style, sp, INDENT_NAME.get(ind, '?')), w,
            'output %r: %s' % (P, detail))


def case_c20_reuse(acc, text1, cut, text2, ind):
    """one printer OBJECT: a print of text1 abandoned after `cut` fragments,
    then a complete print of text2, whose indentation is judged"""
    from calmjs.parse.unparsers.es5 import pretty_printer
    o1 = I.run_parse(text1, keep_node=True)
    o2 = I.run_parse(text2, keep_node=True)
    acc.cases += 1
    if o1.kind != 'accept' or o2.kind != 'accept':
        return
    printer = pretty_printer(indent_str=ind)
    gen = printer(o1.node)
    n = 0
    for f in gen:
        n += 1
        if n >= cut:
            break
    gen.close()
    P = ''.join(f.text for f in printer(o2.node))
    ref = R2.parse(P)
    if ref.verdict != 'accept':
        acc.out['output-not-readable-by-reference (C01 reports it)'] += 1
        return
    acc.traces += 1
    acc.nontrivial += 1
    acc.out['judged-after-abandoned-call'] += 1
    w = {'text': text2, 'indent': ind, 'after_abandoned': text1, 'cut': cut}
    for sp, detail in check_indentation(P, ind, ref):
        acc.bag.add('C20|after-abandoned-call|%s|indent=%s' % (
            sp, INDENT_NAME.get(ind, '?')), w,
            'output %r: %s' % (P, detail))


# ------------------------------------------------------------------ drivers
def texts_for(tier, with_leaves=True):
    """[(text, group)]"""
    from mc.space.corpus import harvest
    from mc.space import leaves as LV
    out = []
    for t in harvest():
        out.append((t, 'S0'))
    for lex in G.programs(1):
        out.append((G.render(lex), 'S2-1'))
    for lex in G.programs(2):
        out.append((G.render(lex), 'S2-2'))
    if with_leaves:
        for lex, d in LV.programs(full=(tier == 'thorough')):
            out.append((G.render(lex), 'leaf'))
    return out


def run_cases(items, fn):
    """items: list; fn(acc, item).  Returns merged Acc."""
    def work(chunk, idx):
        acc = Acc()
        for it in chunk:
            fn(acc, it)
        return acc
    total = Acc()
    for a in pmap(work, items):
        total.merge(a)
    return total


def finish(rep, total, rule):
    rep.bag.merge(total.bag)
    rep.cov['states'] = total.cases
    rep.cov['transitions'] = total.traces
    rep.cov['traces_validated_against_impl'] = total.traces
    rep.cov['evaluations'] = total.cases
    rep.cov['distinct_nontrivial'] = total.nontrivial
    rep.cov['rule'] = rule
    rep.outcome(total.out)
    rep.sample(total.samples)
    rep.cov['node_kinds_exercised'] = dict(total.kinds)
