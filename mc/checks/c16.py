# -*- coding: utf-8 -*-
"""
C16 - tree walking reaches every node exactly once, parents first.

E2: every tree of S2(k), with and without comment capture; Walker().walk /
filter / extract compared with attribute reflection (vars()) of the same
tree.
"""
from __future__ import unicode_literals

import collections

from mc import impl as I
from mc.pool import pmap
from mc.refmodel import tree as R3
from mc.report import VioBag
from mc.space import grammar as G


def reflect(root):
    """[(node, parent, attribute)] of every node below root, by vars()"""
    out = []

    def rec(v, parent, attr):
        if R3.is_node(v):
            if parent is not None:
                out.append((v, parent, attr))
            for k, x in vars(v).items():
                if k == '_token_map':
                    continue
                rec(x, v, k)
        elif isinstance(v, (list, tuple)):
            for x in v:
                rec(x, parent, attr)
    rec(root, None, None)
    return out


PREDICATES = [
    ('identifier', lambda n: type(n).__name__ == 'Identifier'),
    ('has-value-a', lambda n: getattr(n, 'value', None) == 'a'),
    ('statement', lambda n: type(n).__name__.endswith('Statement')),
    ('all', lambda n: True),
    ('none', lambda n: False),
    ('braced', lambda n: type(n).__name__ in ('Block', 'Object', 'FuncExpr',
                                              'FuncDecl', 'CaseBlock')),
]


class Acc(object):
    def __init__(self):
        self.bag = VioBag()
        self.out = collections.Counter()
        self.cases = 0
        self.nontrivial = 0
        self.nodes = 0
        self.attrs = collections.Counter()
        self.samples = []

    def merge(self, o):
        self.bag.merge(o.bag)
        self.out.update(o.out)
        self.attrs.update(o.attrs)
        self.cases += o.cases
        self.nontrivial += o.nontrivial
        self.nodes += o.nodes
        if len(self.samples) < 20:
            self.samples.extend(o.samples[:2])


_SHARED = {'walker': None, 'recent': collections.deque(maxlen=12)}


def check_text(acc, text, with_comments, w):
    from calmjs.parse.walkers import Walker
    acc.cases += 1
    out = I.run_parse(text, with_comments=with_comments, keep_node=True)
    if out.kind != 'accept':
        acc.out['input-not-accepted'] += 1
        return
    root = out.node
    ref = reflect(root)
    acc.nodes += len(ref)
    if len(ref) > 3:
        acc.nontrivial += 1
    for n, p, a in ref:
        acc.attrs['%s.%s' % (type(p).__name__, a)] += 1
    walker = Walker()
    try:
        walked = list(walker.walk(root))
    except Exception as e:
        acc.bag.add('C16|walk-raises|%s' % type(e).__name__, w, repr(e))
        return
    if len(acc.samples) < 2:
        acc.samples.append({'text': text, 'with_comments': with_comments,
                            'nodes': len(ref)})
    wcount = collections.Counter(id(n) for n in walked)
    rid = dict((id(n), (n, p, a)) for n, p, a in ref)
    # every stored node exactly once
    for i, (n, p, a) in rid.items():
        c = wcount.get(i, 0)
        if c == 0:
            # the `comments` attribute is class independent (set by
            # Node.setpos): one signature, not one per owner class
            owner = 'AnyNode' if a == 'comments' else type(p).__name__
            acc.bag.add('C16|node-not-reached|%s.%s|child=%s' % (
                owner, a, type(n).__name__), w,
                '%s held in %s.%s' % (type(n).__name__,
                                      type(p).__name__, a))
        elif c > 1:
            acc.bag.add('C16|node-yielded-more-than-once|%s.%s|child=%s' % (
                type(p).__name__, a, type(n).__name__), w, 'times %d' % c)
    for n in walked:
        if id(n) not in rid:
            acc.bag.add('C16|walk-yields-node-not-stored-in-tree|%s' %
                        type(n).__name__, w, repr(n)[:80])
    # parents first
    order = dict((id(n), i) for i, n in enumerate(walked))
    for n, p, a in ref:
        if id(n) in order and id(p) in order and order[id(p)] > order[id(n)]:
            acc.bag.add('C16|child-before-parent|%s.%s' % (
                type(p).__name__, a), w, '')
            break
    # same order on every walk
    again = [id(n) for n in walker.walk(root)]
    if again != [id(n) for n in walked]:
        acc.bag.add('C16|walk-order-not-reproducible', w, '')
    # the documented `condition` argument of walk is ignored: every node is
    # yielded whatever is passed
    for pname, pred in PREDICATES[:3] + PREDICATES[4:5]:
        try:
            w2 = [id(n) for n in walker.walk(root, pred)]
        except Exception as e:
            acc.bag.add('C16|walk-with-condition-raises|%s' %
                        type(e).__name__, w, repr(e))
            break
        if w2 != [id(n) for n in walked]:
            acc.bag.add('C16|walk-with-condition-omits-nodes|%s' % pname, w,
                        'walk(tree, %s) yields %d nodes, walk(tree) %d' % (
                            pname, len(w2), len(walked)))
            break
    # ONE walker object used for every tree of this process (the trees of
    # earlier cases are garbage by now): it must walk like a fresh one
    sw = _SHARED.get('walker')
    if sw is None:
        sw = _SHARED['walker'] = Walker()
    if not w.get('history'):
        _SHARED['recent'].append([text, with_comments])
    try:
        shared = [id(n) for n in sw.walk(root)]
        sfilt = [id(n) for n in sw.filter(root, PREDICATES[0][1])]
    except Exception as e:
        shared = sfilt = 'raises ' + type(e).__name__
    if shared != [id(n) for n in walked] or sfilt != [
            id(n) for n in walker.filter(root, PREDICATES[0][1])]:
        w2 = dict(w)
        w2['history'] = list(_SHARED['recent'])
        acc.bag.add('C16|reused-walker-differs-from-fresh-walker', w2,
                    'a Walker object that walked %d earlier trees yields '
                    '%s, a fresh one %d nodes' % (
                        len(_SHARED['recent']) - 1,
                        '%d nodes' % len(shared) if isinstance(shared, list)
                        else shared, len(walked)))
    # filter == walk then select; extract == n-th match or TypeError
    for pname, pred in PREDICATES:
        want = [id(n) for n in walked if pred(n)]
        try:
            got = [id(n) for n in walker.filter(root, pred)]
        except Exception as e:
            acc.bag.add('C16|filter-raises|%s|%s' % (pname,
                                                    type(e).__name__), w,
                        repr(e))
            continue
        if got != want:
            acc.bag.add('C16|filter-differs-from-walk-then-select|%s' %
                        pname, w, 'filter %d nodes, walk-select %d' % (
                            len(got), len(want)))
            continue
        for skip in range(0, min(len(want), 4) + 1):
            try:
                r = walker.extract(root, pred, skip=skip)
                res = id(r)
            except TypeError:
                res = 'TypeError'
            except Exception as e:
                res = 'raises ' + type(e).__name__
            exp = want[skip] if skip < len(want) else 'TypeError'
            if res != exp:
                acc.bag.add('C16|extract-wrong|%s|%s' % (
                    pname, 'past-the-end' if skip >= len(want)
                    else 'nth'), w, 'skip=%d' % skip)
                break


def run(tier, rep):
    progs = G.programs(2) if tier == 'quick' else None
    items = []
    if tier == 'quick':
        for lex in progs:
            items.append((' '.join(lex), False))
        for lex in G.programs(1):
            items.append(('/*a*/ ' + ' /*c*/ '.join(lex) + ' /*z*/', True))
        for lex in G.chain_programs(2, G.CORE_FORMS):
            items.append(('/*a*/ ' + ' /*c*/ '.join(lex), True))
    else:
        for lex in G.programs(2):
            items.append((' '.join(lex), False))
            items.append(('/*a*/ ' + ' /*c*/ '.join(lex), True))
        for lex in G.chain_programs(3, G.CORE_FORMS):
            items.append((' '.join(lex), False))
    from mc.space.corpus import harvest
    for t in harvest():
        items.append((t, False))
        items.append((t, True))

    def work(chunk, idx):
        acc = Acc()
        for text, wc in chunk:
            check_text(acc, text, wc, {'text': text, 'with_comments': wc})
        return acc
    total = Acc()
    for a in pmap(work, items):
        total.merge(a)
    rep.bag.merge(total.bag)
    rep.space('trees', count=len(items))
    rep.cov['evaluations'] = total.cases
    rep.cov['distinct_nontrivial'] = total.nontrivial
    rep.cov['states'] = total.cases
    rep.cov['transitions'] = total.nodes
    rep.cov['traces_validated_against_impl'] = total.nontrivial
    rep.cov['nodes_compared'] = total.nodes
    rep.cov['parent_attribute_pairs_exercised'] = dict(total.attrs)
    rep.outcome(total.out)
    rep.sample(total.samples)
    rep.cov['rule'] = (
        'every tree the parser builds for S0 and S2(k) texts, with and '
        'without comment capture; the node set found by recursive vars() '
        'reflection is compared with Walker.walk/filter/extract; '
        'non-trivial = tree with more than 3 nodes')
    rep.cov['bounds'] = {'S2_k': 2 if tier == 'quick' else 3}
    rep.assumptions += ['reflection over vars() (lists included, _token_map '
                        'excluded) defines "every node stored in any '
                        'attribute"']


def replay(w):
    acc = Acc()
    for text, wc in w.get('history', [])[:-1]:
        # the earlier trees of the worker, walked by the shared walker and
        # dropped (the effect depends on the allocator reusing addresses)
        check_text(Acc(), text, wc, {'text': text, 'with_comments': wc,
                                     'history': True})
    check_text(acc, w['text'], w.get('with_comments', False), w)
    return [{'sig': s, 'detail': v[2]} for s, v in acc.bag.d.items()]
