# -*- coding: utf-8 -*-
"""
C15 - parsing is a pure function of the text: no history or thread effects.

Observation of one call `parse(text, with_comments=flag)`:
    ('tree', ReprWalker().walk(tree, pos=True), digest of the reflection
     fingerprint of the tree - vars() incl. _token_map and comments)
 or ('exc', exception type name, str(exception)).
Baseline of an operation = its observation as the FIRST call of a fresh
process (a child forked from the pristine parent, which has imported the
scratch copy and built the ply tables but has never parsed anything else).

(a) Histories (E4).  Forking is what gives a history its own process; in this
    environment a forked child that parses costs 0.1 - 1 s of CPU (copy on
    write faults of the interpreter heap), a parse in-process 2 ms.  So:
    (a1) EXACT: every sequence of <= 2 calls over the whole pool (thorough:
         also every sequence of 3 calls over a sub-pool) is executed in its
         own child forked from a pristine worker; every call is compared.
    (a2) WINDOWS: every sequence of 3 calls over the whole pool (thorough:
         also of 4 calls over a reduced pool) occurs as a contiguous window of
         a de Bruijn sequence, which is cut into one segment per worker and
         executed call after call in that worker; every call is compared.  A
         window does not start in a fresh process; to show that it starts in
         an EQUIVALENT state, the E4 fingerprint of the global state of
         calmjs.parse.* and ply.lex / ply.yacc is taken after every call and
         the distinct classes are counted and reported (`state_class`).
         A deviating window is never reported as such: the shortest suffix of
         the worker's own call sequence that reproduces it in a fresh process
         is searched and reported (nothing reproduces -> harness error).

(b) Schedules (E5).  n real threads, each parsing one text, serialised by a
    baton (`schedule.Baton`).  Scheduling points are injected from the
    harness: thread start / end plus
      * token granularity: a wrapper around `Lexer._token` installed at CLASS
        level (never around p_* / t_* functions - ply orders rules by the line
        numbers of those functions); ALL interleavings are enumerated depth
        first over choice prefixes with replay;
      * line granularity (thorough): a sys.settrace hook on 'line' events in
        calmjs/parse/** and ply/**; all schedules with at most one
        pre-emption (thread A runs up to its k-th line, B runs completely, A
        resumes; both orders, every k).
    Every thread's observation must equal its baseline.  Before a failure is
    trusted its schedule is replayed twice and must give identical
    observations and identical point sequences, otherwise the run is a
    harness error.  Unsynchronised access BELOW the granularity of the
    scheduling points (between two bytecodes of a line, inside C code) is not
    modelled, and neither are first-use races: the ply tables are generated
    and imported at boot, before any thread exists.

Forks only ever happen in processes that have no extra thread.
"""
from __future__ import unicode_literals

import collections
import itertools
import os
import time

from mc.boot import HarnessError
from mc.pool import pmap, ncpu
from mc.report import VioBag
from mc.explore import history as H
from mc.explore import schedule as S

NEEDS_TABLES = True

# ---------------------------------------------------------------------
# pools
# ---------------------------------------------------------------------

POOL = [
    ('asi-eof', 'a'),
    ('division-multiline', 'var x = 1;\nx = x / 2 / 3;\n'),
    ('asi-restricted', 'function f(a) {\n  return a\n  + 1\n}\nf\n(1)\n'),
    ('getter-setter', 'x = {get a() { return 1 }, set a(v) { }, get: 2};'),
    ('regex-backtrack', 'if (a) {\n}\n/b/.test(c);\nx++\n/y/g'),
    ('lexer-error-line2', 'x;\ny = 1 @ 2'),
    ('parser-error', 'var = 1;'),
    ('unbalanced-open-paren', 'if ((a) { /x/ '),
    ('mismatched-close-paren', 'a)))'),
    ('pending-hidden-comments', 'a = 1; // trailing\n/* end */'),
    ('comments-inside',
     '/* c1 */ function /* c2 */ f() { // c3\n return 1 /* c4 */ ; }'),
    ('regex-error', 'a = /[/;'),
    ('string-continuation',
     'var s = "a\\\nb", t = \'\\u00e9\';\n\n\n  z'),
    ('unbalanced-at-eof', '(1 + (2'),
    ('unterminated-string', 'var s = "abc\n'),
]
# thorough, length 4
REDUCED = ('division-multiline', 'asi-restricted', 'regex-backtrack',
           'lexer-error-line2', 'unbalanced-open-paren',
           'mismatched-close-paren', 'pending-hidden-comments',
           'comments-inside', 'string-continuation', 'unbalanced-at-eof')

# texts parsed through the `calmjs.parse.es5` helper object
HELPER_POOL = ('asi-eof', 'division-multiline', 'parser-error',
               'pending-hidden-comments', 'comments-inside')
# thorough: every triple over these (x flag), each in a fresh process
EXACT3 = ('regex-backtrack', 'unbalanced-open-paren',
          'pending-hidden-comments')
# quick: second call of the pairs that get a fresh process each (the first
# call ranges over the whole pool; thorough: all pairs)
PROBES = ('division-multiline', 'regex-backtrack', 'comments-inside')

# texts of <= 4 tokens (one of 5) for the schedule explorer: (text, flag)
SCHED = [
    ('a', False),
    ('a/2', False),          # division / regex decision
    ('(b)', False),          # parenthesis stack
    ('/r/', False),          # regex
    ('a)', False),           # lexer raises: mismatched
    ('x//c\n', True),        # hidden comment tokens
    ('1 @', False),          # illegal character
    ('a\nb', False),         # ASI, pushed back token
    ('{}/r/', False),        # parser back-tracking to a regex
    ('if(a)/r/', False),     # implied block marker on the stack
    ('[,]', False),
    ('/*c*/a', True),        # a comment that ends up ON a node of the tree
]
SCHED_THOROUGH_ONLY = (9,)
# thorough: three threads
TRIPLES = [
    (0, 3, 4), (0, 4, 6), (3, 4, 5), (4, 5, 6), (0, 0, 0), (3, 3, 3),
    (4, 4, 4), (0, 3, 5), (3, 5, 6), (0, 5, 6),
]
# thorough: <= 1 pre-emption at line granularity
LINE_PAIRS = [(1, 2), (3, 4), (5, 7), (8, 9), (0, 0), (6, 10)]


def ops_of(names):
    d = dict(POOL)
    return [(d[n], wc) for n in names for wc in (False, True)]


def tag_of(text):
    for n, t in POOL:
        if t == text:
            return n
    return 'sched'


def lib():
    from calmjs.parse.parsers.es5 import parse
    from calmjs.parse.lexers.es5 import Lexer
    from calmjs.parse.walkers import ReprWalker
    ns = collections.namedtuple('Lib', ['parse', 'Lexer', 'ReprWalker'])
    return ns(parse, Lexer, ReprWalker)


def observe_tree(L, tree):
    # a damaged result (None, a tree ReprWalker cannot render) is an
    # observation like any other - never a reason for the harness to fail
    if tree is None:
        return ('returned-None', '', '')
    try:
        return ('tree', L.ReprWalker().walk(tree, pos=True),
                H.digest(H.deep_fp(tree)))
    except Exception as e:
        return ('unrenderable-tree', type(e).__name__, repr(e)[:80])


def observe_exc(e):
    return ('exc', type(e).__name__, str(e))


def helper_ops(names):
    """the same texts through the package-level helper `calmjs.parse.es5`"""
    d = dict(POOL)
    return [(d[n], wc, 'es5') for n in names for wc in (False, True)]


def as_op(item):
    item = list(item)
    return (item[0], bool(item[1])) + tuple(item[2:])


def observe_call(L, op):
    text, wc = op[:2]
    try:
        if len(op) > 2:
            from calmjs.parse import es5 as helper
            tree = helper(text, with_comments=wc)
        else:
            tree = L.parse(text, with_comments=wc)
    except Exception as e:
        return observe_exc(e)
    return observe_tree(L, tree)


def first_call(op):
    return observe_call(lib(), op)


def baselines(ops, twice=True):
    """op -> observation of the op as the first call of a fresh process"""
    ops = list(ops)
    a = H.fresh_children(first_call, [(op,) for op in ops])
    b = H.fresh_children(first_call, [(op,) for op in ops]) if twice else a
    base = {}
    for op, x, y in zip(ops, a, b):
        if x != y:
            raise HarnessError(
                'first call of %r differs between two fresh processes' % (op,))
        base[op] = x
    return base


def kind(obs):
    return 'tree' if obs[0] == 'tree' else obs[1]


def how(want, got):
    """Coarse class of a deviation (signature component); the exception
    types and texts go to the detail."""
    if want[0] == 'tree' and got[0] == 'tree':
        if want[1] != got[1]:
            import re
            strip = re.compile(r'@[0-9?]+:[0-9?]+ ')
            if strip.sub('', want[1]) == strip.sub('', got[1]):
                return 'positions-differ'
            return 'tree-differs'
        return 'hidden-attributes-differ'
    if want[0] == 'tree':
        return 'tree-became-error'
    if got[0] == 'tree':
        return 'error-became-tree'
    return 'error-differs'


def kind2(obs):
    return 'tree' if obs[0] == 'tree' else 'error'


def brief(obs):
    return '%s %s' % (obs[0], obs[1][:150] if obs[0] == 'tree'
                      else obs[1] + ': ' + obs[2][:150])


# ---------------------------------------------------------------------
# (a) histories
# ---------------------------------------------------------------------

def debruijn(k, n):
    """de Bruijn sequence B(k, n): a cyclic sequence over range(k) in which
    every word of length n occurs exactly once (Fredricksen-Kessler-Maiorana)
    """
    a = [0] * (k * n)
    seq = []

    def db(t, p):
        if t > n:
            if n % p == 0:
                seq.extend(a[1:p + 1])
        else:
            a[t] = a[t - p]
            db(t + 1, p)
            for j in range(a[t - p] + 1, k):
                a[t] = j
                db(t + 1, t)
    db(1, 1)
    return seq


PLY_HOOKS = ('ply.yacc:_errok', 'ply.yacc:_token', 'ply.yacc:_restart')


PARSE_HOT = frozenset([
    'calmjs.parse.asttypes', 'calmjs.parse.exceptions', 'calmjs.parse.factory',
    'calmjs.parse.io', 'calmjs.parse.lexers', 'calmjs.parse.lexers.es5',
    'calmjs.parse.lexers.tokens', 'calmjs.parse.parsers',
    'calmjs.parse.parsers.es5', 'calmjs.parse.utils', 'calmjs.parse.walkers',
])


def state_class(full=False):
    """
    E4 fingerprint of the process-global state that a parse could read:
    all globals / class attributes of ply.lex, ply.yacc and of the
    calmjs.parse modules whose code runs during parse() - after every call;
    with full=True of every loaded calmjs.parse.* module including the ply
    table modules - at the start and the end of a worker.  ply.yacc's
    deprecated global error hooks _errok / _token / _restart (set around every
    p_error call, deleted afterwards - unless p_error raises; never read by
    calmjs.parse) are abstracted to None / set / absent.
    """
    if full:
        g = H.global_fp(extra=('ply.lex', 'ply.yacc'))
    else:
        g = H.global_fp(only=PARSE_HOT, extra=('ply.lex', 'ply.yacc'))
    return [(k, (v if v is None else 'set') if k in PLY_HOOKS else v)
            for k, v in g]


def violation(ops, base, calls, got, where):
    """-> (sig, witness, detail) for the last call of `calls` (op indices)"""
    op = ops[calls[-1]]
    want = base[op]
    prev = [ops[i] for i in calls[:-1]]
    sig = 'C15|history|%s|after=%s' % (
        how(want, got), kind2(base[prev[-1]]) if prev else 'nothing')
    return (sig, {'calls': [list(o) for o in prev + [op]]},
            '%s: call %d (%s): first-call result %s; now %s' % (
                where, len(calls), tag_of(op[0]), brief(want), brief(got)))


def exact_sequences(ops, base, seqs):
    """Each sequence in its own child forked from this (pristine) process;
    every call compared.  -> (calls executed, [violation records])"""
    def one(seq):
        L = lib()
        recs = []
        for i in range(len(seq)):
            got = observe_call(L, ops[seq[i]])
            if got != base[ops[seq[i]]]:
                recs.append(violation(ops, base, seq[:i + 1], got,
                                      'fresh process'))
        return recs
    out = []
    calls = 0
    for seq, recs in zip(seqs, H.fresh_children(
            one, [(tuple(q),) for q in seqs], width=3)):
        calls += len(seq)
        out.extend(recs)
    return calls, out


def window_segment(ops, base, seg, order):
    """One worker: the calls of `seg` one after the other in this process.
    Returns (calls, suspects [(sig, pos, detail)], classes {digest: calls
    started in that class}, class changes [(pos, key)], full fingerprint
    digests at start and end)."""
    L = lib()
    full0 = H.digest(state_class(full=True))
    ref = state_class()
    cls = H.digest(ref)
    classes = collections.Counter()
    changes = []
    keys = set()
    suspects = []
    for pos, i in enumerate(seg):
        classes[cls] += 1
        got = observe_call(L, ops[i])
        if got != base[ops[i]]:
            lo = max(0, pos - order + 1)
            sig, _, detail = violation(
                ops, base, seg[lo:pos + 1], got, 'window')
            suspects.append((sig, pos, detail))
        now = state_class()
        if now != ref:
            key = H.first_difference(ref, now)
            keys.add(key.split(' ')[0])
            if len(changes) < 50:
                changes.append((pos, key))
            ref = now
            cls = H.digest(now)
    full1 = H.digest(state_class(full=True))
    return (len(seg), suspects, dict(classes), changes, (full0, full1),
            sorted(keys))


def confirm_suspect(ops, base, seg, pos, order):
    """Shortest suffix of seg[:pos+1] (tried: order-1, order, then doubling)
    whose last call deviates when run alone in a fresh process."""
    def last_of(calls):
        L = lib()
        got = None
        for i in calls:
            got = observe_call(L, ops[i])
        return got
    lengths = []
    n = 2
    while n < pos + 1:
        lengths.append(n)
        n = n + 1 if n < order + 1 else n * 2
    lengths.append(pos + 1)
    for n in lengths:
        calls = list(seg[pos - n + 1:pos + 1])
        got = H.fresh_child(last_of, calls, timeout=600.0)
        if got != base[ops[calls[-1]]]:
            return violation(ops, base, calls, got, 'fresh process')
    return None


def cut_cycle(cyc, n, order):
    """Cut the cyclic de Bruijn sequence into n segments (each extended by
    order-1 calls so that no window is lost) such that segment k STARTS with
    operation k: every operation is the first call of one worker process."""
    m = len(cyc)
    cuts = []
    pos = 0
    for k in range(n):
        pos = max(pos, k * m // n)
        while cyc[pos % m] != k:
            pos += 1
        cuts.append(pos)
        pos += 1
    segs = []
    for k in range(n):
        lo = cuts[k]
        hi = cuts[k + 1] if k + 1 < n else cuts[0] + m
        segs.append([cyc[i % m] for i in range(lo, hi + order - 1)])
    return segs


def run_histories(rep, name, ops, order, exact):
    """exact: list of op-index sequences to run each in a fresh process"""
    # (every op is run again as a first call by the exact sequences below,
    # which is where nondeterminism between fresh processes would show)
    base = baselines(ops, twice=False)
    n = len(ops)

    # (a1) exact
    def work_exact(items, idx):
        return exact_sequences(ops, base, items)
    calls = 0
    for c, recs in pmap(work_exact, exact):
        calls += c
        for sig, w, d in recs:
            if len(w['calls']) == 1:
                rep.harness_errors.append(
                    'first call differs between two fresh processes: ' + d)
            else:
                rep.bag.add(sig, w, d)
    exact_prefixes = set()
    for q in exact:
        for i in range(1, len(q) + 1):
            exact_prefixes.add(tuple(q[:i]))
    exact_prefixes.update((i,) for i in range(n))     # the baselines

    # (a2) windows
    cyc = debruijn(n, order)
    segs = cut_cycle(cyc, n, order)

    def work_windows(items, idx):
        return [window_segment(ops, base, seg, order) for seg in items]
    wcalls = 0
    classes = collections.Counter()
    suspects = {}
    changes = []
    fulls = set()
    results = pmap(work_windows, segs, nworkers=len(segs))
    k = len(results)
    flat = [results[i % k][i // k] for i in range(len(segs))]
    moved = set()
    for si, (c, sus, cl, ch, full, keys) in enumerate(flat):
        wcalls += c
        classes.update(cl)
        changes.extend(ch[:3])
        fulls.update(full)
        moved.update(keys)
        for sig, pos, detail in sus:
            e = suspects.setdefault(sig, [0, []])
            e[0] += 1
            e[1].append((pos, si, detail))
    for sig in sorted(suspects):
        cnt, cands = suspects[sig]
        cands.sort()
        done = False
        for pos, si, detail in cands[:3]:
            v = confirm_suspect(ops, base, segs[si], pos, order)
            if v is not None:
                rep.bag.add(v[0], v[1], v[2])
                rep.bag.d[v[0]][0] += cnt - 1
                done = True
                break
        if not done:
            rep.harness_errors.append(
                'window observation %s (%d cases, e.g. %s) does not reproduce '
                'in a fresh process from any suffix of its worker\'s call '
                'sequence' % (sig, cnt, cands[0][2]))
    other = sorted(k for k in moved if k not in PLY_HOOKS)
    if other:
        # windows that start after such a change do not start in a state
        # equivalent to a fresh process: say so, do not claim exhaustiveness
        rep.cov['exhaustive'] = False
        rep.cov['caps_hit'].append(
            'histories-%s: global state left the pristine class in %s; the '
            'de Bruijn windows executed after that are not equivalent to '
            'runs in a fresh process' % (name, ', '.join(other[:5])))
    rep.space('histories-' + name, operations=n,
              global_state_attributes_that_moved=sorted(moved),
              sequences_each_in_a_fresh_process=len(exact_prefixes),
              exact_calls=calls + n, window_len=order,
              windows=len(cyc), window_calls=wcalls,
              worker_processes=len(segs),
              global_state_classes=len(classes),
              calls_started_per_class=dict(classes),
              complete_fingerprints_at_worker_start_and_end=len(fulls),
              first_class_changes=[list(c) for c in changes[:6]],
              first_call_kinds=dict(collections.Counter(
                  kind(o) for o in base.values())))
    rep.outcome(collections.Counter(
        'first-call:' + kind(o) for o in base.values()))
    distinct = len(exact_prefixes | set(
        tuple(cyc[(i + j) % len(cyc)] for j in range(order))
        for i in range(len(cyc))))
    return distinct, distinct - n, calls + n + wcalls, len(classes)


# ---------------------------------------------------------------------
# (b) schedules
# ---------------------------------------------------------------------

_current = [None]


def install_token_points(L):
    """Wrap Lexer._token at class level (idempotent)."""
    cur = L.Lexer.__dict__['_token']
    if getattr(cur, '_c15_wrapped', False):
        return
    orig = cur

    def _token(self):
        b = _current[0]
        if b is not None:
            b.point('token')
        return orig(self)
    _token._c15_wrapped = True
    L.Lexer._token = _token


def bodies_for(L, ops):
    return [(lambda t=t, wc=wc: L.parse(t, with_comments=wc))
            for t, wc in ops]


def observe_results(L, results):
    out = []
    for r in results:
        if r is None:
            out.append(('none',))
        elif r[0] == 'ok':
            out.append(observe_tree(L, r[1]))
        else:
            out.append(observe_exc(r[1]))
    return out


def run_token_schedule(L, ops, chooser, crew=None):
    b = S.Baton(len(ops), chooser, horizon=400, timeout=60.0)
    _current[0] = b
    try:
        results = b.run(bodies_for(L, ops), crew)
    finally:
        _current[0] = None
    return b.trace, (observe_results(L, results), list(b.events))


def judge(ops, base, obs, bag, witness, gran, rerun, errors):
    """Compare the threads' observations with their baselines; a mismatch is
    only trusted when two replays of the same schedule agree with it."""
    bad = [i for i, op in enumerate(ops) if obs[0][i] != base[op]]
    if not bad:
        return
    r1, r2 = rerun(), rerun()
    if r1 != obs or r2 != obs:
        errors.append(
            'schedule %r of %r is not deterministic under replay' % (
                witness, ops))
        return
    for i in bad:
        want, got = base[ops[i]], obs[0][i]
        sig = 'C15|schedule|%s|%s|threads=%d' % (
            gran, how(want, got), len(ops))
        bag.add(sig, witness,
                'thread %d %r: sequential result %s; under this schedule %s'
                % (i, ops[i][0], brief(want), brief(got)))


def token_block(base, items):
    """items: (op index tuple, root prefix)"""
    L = lib()
    install_token_points(L)
    bag = VioBag()
    errors = []
    n = 0
    switching = 0
    crews = {}
    for idxs, root in items:
        ops = [SCHED[i] for i in idxs]
        crew = crews.get(len(ops))
        if crew is None:
            # persistent threads of this worker process (which never forks)
            crew = crews[len(ops)] = S.Crew(len(ops))

        def execute(chooser):
            return run_token_schedule(L, ops, chooser, crew)
        for choices, obs in S.explore_all(execute, root):
            n += 1
            # a schedule is non-trivial when some thread is resumed after
            # another thread has run
            seen_other = set()
            last = None
            nontriv = False
            for c in choices:
                if c != last and c in seen_other:
                    nontriv = True
                    break
                if last is not None and c != last:
                    seen_other.add(last)
                last = c
            switching += nontriv
            witness = {'threads': [list(o) for o in ops],
                       'schedule': list(choices), 'granularity': 'token'}

            def rerun(choices=choices):
                return run_token_schedule(
                    L, ops, S.PrefixChooser(choices), crew)[1]
            judge(ops, base, obs, bag, witness, 'token', rerun, errors)
    return n, switching, bag, errors


def token_steps(ops):
    """number of steps (token calls + 1) of each op when run alone; runs in a
    fresh child"""
    L = lib()
    install_token_points(L)
    out = []
    for op in ops:
        trace, (obs, events) = run_token_schedule(
            L, [op], S.PrefixChooser(()))
        out.append(len(trace))
    return out


def run_token_level(rep, base, combos, nthreads):
    steps = H.fresh_child(token_steps, SCHED)
    items = []
    expected = 0
    for idxs in combos:
        expected += S.count_interleavings([steps[i] for i in idxs])
        for root in itertools.product(range(nthreads), repeat=nthreads):
            items.append((idxs, root))

    def work(its, idx):
        return token_block(base, its)
    total = switching = 0
    for n, sw, bag, errors in pmap(work, items):
        total += n
        switching += sw
        rep.bag.merge(bag)
        rep.harness_errors.extend(errors)
    if total != expected and not len(rep.bag):
        rep.harness_errors.append(
            '%d-thread token level: %d schedules executed but %d '
            'interleavings exist for the sequential step counts %r' % (
                nthreads, total, expected, steps))
    rep.space('schedules-token-%d-threads' % nthreads,
              thread_texts=[list(o) for o in SCHED],
              steps_per_text=steps, combinations=len(combos),
              interleavings_expected=expected, executed=total,
              with_a_resumed_thread=switching)
    return total, switching


# -- line granularity ------------------------------------------------------

def target_predicate():
    import ply
    from mc import boot
    dirs = (os.path.dirname(ply.__file__) + os.sep,
            os.path.join(boot.scratch_dir(), 'calmjs', 'parse') + os.sep)

    def is_target(code):
        return code.co_filename.startswith(dirs)
    return is_target


def line_counts(pairs):
    """(pair, first) -> number of line events of `first` when it runs alone
    first; measured twice after a warm-up, in a fresh child."""
    L = lib()
    is_target = target_predicate()
    out = {}
    for pair in pairs:
        ops = [SCHED[i] for i in pair]
        for op in ops:
            observe_call(L, op)
        for first in (0, 1):
            ns = []
            for _ in range(2):
                _, n, hit, _ = S.one_preemption(
                    bodies_for(L, ops), first, None, is_target)
                ns.append(n)
            if ns[0] != ns[1]:
                raise HarnessError('line count of %r not reproducible: %r' % (
                    ops[first], ns))
            out[pair, first] = ns[0]
    return out


def line_block(base, counts, items):
    L = lib()
    is_target = target_predicate()
    bag = VioBag()
    errors = []
    n = 0
    warmed = set()
    crew = S.Crew(2)
    for pair, first, lo, hi in items:
        ops = [SCHED[i] for i in pair]
        if (pair, first) not in warmed:
            for op in ops:
                observe_call(L, op)
            _, cnt, _, _ = S.one_preemption(
                bodies_for(L, ops), first, None, is_target, crew=crew)
            if cnt != counts[pair, first]:
                errors.append(
                    'line count of %r differs between processes: %d / %d' % (
                        ops[first], cnt, counts[pair, first]))
                continue
            warmed.add((pair, first))

        def once(k):
            results, cnt, hit, events = S.one_preemption(
                bodies_for(L, ops), first, k, is_target, crew=crew)
            return (observe_results(L, results),
                    (hit, [e for e in events]))
        for k in range(lo, hi):
            obs = once(k)
            n += 1
            if k is not None and obs[1][0] is None:
                errors.append('pre-emption point %d of %r was not reached' % (
                    k, ops[first]))
                continue
            witness = {'threads': [list(o) for o in ops], 'first': first,
                       'preempt_before_line_event': k,
                       'granularity': 'line',
                       'at': '%s:%s' % (
                           str(obs[1][0][0]).rsplit('/', 1)[-1],
                           obs[1][0][1])}
            judge(ops, base, obs, bag, witness, 'line',
                  lambda k=k: once(k), errors)
    return n, bag, errors


def run_line_level(rep, base):
    pairs = [tuple(p) for p in LINE_PAIRS]
    counts = H.fresh_child(line_counts, pairs, timeout=600.0)
    items = []
    nw = ncpu()
    total_expected = 0
    for pair in pairs:
        for first in (0, 1):
            if pair[0] == pair[1] and first == 1:
                continue          # same text twice: symmetric
            n = counts[pair, first]
            total_expected += n
            step = max(1, (n + 4 * nw - 1) // (4 * nw))
            lo = 1
            while lo <= n:
                items.append((pair, first, lo, min(n + 1, lo + step)))
                lo += step

    def work(its, idx):
        return line_block(base, counts, its)
    total = 0
    for n, bag, errors in pmap(work, items):
        total += n
        rep.bag.merge(bag)
        rep.harness_errors.extend(errors)
    rep.space('schedules-line-one-preemption',
              pairs=[[list(SCHED[i]) for i in p] for p in pairs],
              line_events_of_first_thread=dict(
                  ('%r first=%d' % (p, f), n)
                  for (p, f), n in sorted(counts.items())),
              schedules_expected=total_expected, executed=total)
    return total


# ---------------------------------------------------------------------

def run(tier, rep):
    all_ops = ops_of([n for n, _ in POOL])
    nops = len(all_ops)
    states = nontriv = calls = 0
    phases = collections.OrderedDict()
    t0 = time.time()

    def lap(name):
        phases[name] = round(time.time() - t0 - sum(phases.values()), 1)
    if tier == 'quick':
        probes = [all_ops.index(o) for o in ops_of(PROBES) if o[1]] + \
            [all_ops.index((dict(POOL)['division-multiline'], False))]
        exact = [(a, b) for a in range(nops) for b in probes]
    else:
        exact = list(itertools.product(range(nops), repeat=2))
    d, nt, c, ncls = run_histories(rep, 'full-pool', all_ops, 3, exact)
    states += d
    nontriv += nt
    calls += c
    rep.cov['global_state_classes_full_pool'] = ncls
    lap('histories-full-pool')
    # the package-level helper (calmjs.parse.es5) is another way in: all
    # pairs each in a fresh process, and every window of three calls
    hops = helper_ops(HELPER_POOL)
    d, nt, c, ncls = run_histories(
        rep, 'helper-entry', hops, 3,
        list(itertools.product(range(len(hops)), repeat=2)))
    states += d
    nontriv += nt
    calls += c
    lap('histories-helper-entry')
    if tier == 'thorough':
        red = ops_of(REDUCED)
        e3 = [red.index(o) for o in ops_of(EXACT3)]
        d, nt, c, ncls = run_histories(
            rep, 'reduced-pool', red, 4,
            list(itertools.product(e3, repeat=3)))
        states += d
        nontriv += nt
        calls += c
        rep.cov['global_state_classes_reduced_pool'] = ncls
        lap('histories-reduced-pool')

    if len(rep.bag) or rep.harness_errors:
        # The schedule explorer re-executes: it needs executions that start
        # from equivalent states.  History effects have just been shown, so
        # that precondition is refuted; the violations found stand.
        rep.cov['exhaustive'] = False
        rep.cov['caps_hit'].append(
            'schedule exploration skipped: the history phase found '
            'violations, executions in one process are not independent')
        finish(rep, tier, states, nontriv, calls, phases)
        return
    base = baselines(SCHED)
    rep.outcome(collections.Counter(
        'thread-text:' + kind(o) for o in base.values()))
    texts = [i for i in range(len(SCHED))
             if tier == 'thorough' or i not in SCHED_THOROUGH_ONLY]
    pairs = list(itertools.combinations_with_replacement(texts, 2))
    n2, sw2 = run_token_level(rep, base, pairs, 2)
    states += n2
    nontriv += sw2
    calls += 2 * n2
    lap('schedules-token-2')
    if tier == 'thorough':
        n3, sw3 = run_token_level(rep, base, [tuple(t) for t in TRIPLES], 3)
        states += n3
        nontriv += sw3
        calls += 3 * n3
        lap('schedules-token-3')
        nl = run_line_level(rep, base)
        states += nl
        nontriv += nl
        calls += 2 * nl
        lap('schedules-line')
    finish(rep, tier, states, nontriv, calls, phases)


def finish(rep, tier, states, nontriv, calls, phases):
    rep.cov['phase_wall_s'] = phases
    rep.cov['states'] = states
    rep.cov['evaluations'] = states
    rep.cov['distinct_nontrivial'] = nontriv
    rep.cov['transitions'] = calls
    rep.cov['traces_validated_against_impl'] = calls
    rep.cov['rule'] = (
        'states = call sequences (histories: those run in their own fresh '
        'process + those covered as a window of a de Bruijn sequence) + '
        'complete thread schedules executed, each enumerated exactly once '
        '(full products / depth first over scheduling choices with replay; '
        'no sampling); transitions = '
        'parse calls executed; traces = parse results compared with the '
        'result of the same call as the first call of a fresh process.  '
        'Non-trivial = a history of >= 2 calls, or a schedule in which a '
        'thread is resumed after another thread has run')
    rep.cov['bounds'] = {
        'history_pool_ops': len(POOL) * 2, 'window_len': 3,
        'fresh_process_pairs': 'first call: whole pool; second call: ' + (
            '4 probes' if tier == 'quick' else 'whole pool'),
        'reduced_pool_ops': len(REDUCED) * 2 if tier == 'thorough' else 0,
        'reduced_window_len': 4 if tier == 'thorough' else 0,
        'exact3_ops': len(EXACT3) * 2 if tier == 'thorough' else 0,
        'schedule_texts': len(SCHED), 'threads': [2] if tier == 'quick'
        else [2, 3], 'line_pairs': len(LINE_PAIRS) if tier == 'thorough'
        else 0, 'preemptions_line_level': 1}
    rep.sample([
        {'calls': [[POOL[7][1], False], [POOL[4][1], True]]},
        {'calls': [[POOL[9][1], True], [POOL[0][1], True], [POOL[1][1], 0]]},
        {'threads': [list(SCHED[1]), list(SCHED[2])],
         'schedule': [0, 1, 0, 1, 0, 1, 0, 1, 0, 1, 0, 1],
         'granularity': 'token'},
    ])
    rep.assumptions += [
        'scheduling points are thread start/end and entries of Lexer._token '
        '(quick, thorough) resp. line events inside calmjs/parse and ply '
        '(thorough, at most one pre-emption); unsynchronised access below '
        'that granularity - between bytecodes of one line, inside C code - '
        'is not modelled',
        'the ply tables are generated and imported at boot, before any '
        'thread exists: first-use races (two threads generating / importing '
        'the tables) are not explored',
        'a child forked from the parent that has imported the scratch copy '
        'and built the tables but parsed nothing else is equivalent to a '
        'fresh process',
        'a de Bruijn window does not start in a fresh process but in one of '
        'the reported global-state classes (fingerprint of all module '
        'globals / class attributes of the calmjs.parse modules used by '
        'parse() and of ply.lex / ply.yacc, taken after every call); on the '
        'unchanged tree the classes differ only in ply.yacc._errok / _token '
        '/ _restart (None after import, deleted after a p_error call that '
        'returned, left set after a p_error call that raised), which '
        'calmjs.parse never reads.  Sequences that do start in a fresh '
        'process: every single call, the listed pairs (thorough: all pairs, '
        'and all triples over a sub-pool)',
        'forking a process per history costs 0.1-1 s CPU in this '
        'environment (copy-on-write faults), hence the split into few '
        'fork-isolated sequences and many in-process windows',
    ]


def replay(w):
    res = []
    if 'calls' in w:
        ops = [as_op(c) for c in w['calls']]
        base = baselines(sorted(set(ops)))

        def go():
            L = lib()
            return [observe_call(L, op) for op in ops]
        got = H.fresh_child(go)
        for i, (op, g) in enumerate(zip(ops, got)):
            if g != base[op]:
                res.append({
                    'sig': 'C15|history|%s' % how(base[op], g),
                    'detail': 'call %d %r: first-call result %s; now %s' % (
                        i + 1, op, brief(base[op]), brief(g))})
        return res
    ops = [as_op(c) for c in w['threads']]
    base = baselines(sorted(set(ops)))
    L = lib()
    if w.get('granularity') == 'line':
        for op in ops:            # same warm-up as the exploring workers
            observe_call(L, op)
        results, cnt, hit, events = S.one_preemption(
            bodies_for(L, ops), w['first'], w['preempt_before_line_event'],
            target_predicate())
        obs = observe_results(L, results)
    else:
        install_token_points(L)
        sched = list(w['schedule'])

        def lenient(step, enabled, me):
            # a schedule recorded on other code may not fit any more: follow
            # it while it names an enabled thread
            if step < len(sched) and sched[step] in enabled:
                return sched[step]
            return enabled[0]
        obs = run_token_schedule(L, ops, lenient)[1][0]
    for i, op in enumerate(ops):
        if obs[i] != base[op]:
            res.append({
                'sig': 'C15|schedule|%s' % how(base[op], obs[i]),
                'detail': 'thread %d %r: sequential %s; scheduled %s' % (
                    i, op, brief(base[op]), brief(obs[i]))})
    return res
