# -*- coding: utf-8 -*-
"""
C19 - literal data bound by `var` / assignment is extracted as the equal
Python value (the one a JSON parser gives for the same literal text), and
nothing else is added for that statement.

Explorer E8 (value enumeration): every JSON value of a structurally defined
finite family (see `family()`), x fold_ops {off, on} x binding form
{var, assign, var nested in a function, assignment nested in a function}.
Oracle R7: `json.loads(literal text)` compared with exact Python types.

A value is a *spec*:
    ('a', i)                      atom ATOMS[i]
    ('l', (spec, ...))            array
    ('o', ((k, spec), ...))       object, k indexes KEYS
The JSON/ES5 text of a spec is `render(spec)`; both the program under test
and the oracle are fed that very text.
"""
from __future__ import unicode_literals

import collections
import json
import warnings

from mc.pool import pmap
from mc.report import VioBag

NEEDS_TABLES = True

# --------------------------------------------------------------------------
# catalogue: (spelling as it appears in the source text, spelling class)
# every spelling is valid JSON *and* a valid ES5 literal / unary minus
# expression with the same meaning
# --------------------------------------------------------------------------
ATOMS = [
    ('""', 'str-empty'),
    ('"a"', 'str-plain'),
    ('"it\'s"', 'str-single-quote-inside'),
    ('"/"', 'str-raw-solidus'),
    ('"\\""', 'str-escape-dquote'),
    ('"\\\\"', 'str-escape-backslash'),
    ('"\\/"', 'str-escape-solidus'),
    ('"\\b"', 'str-escape-b'),
    ('"\\f"', 'str-escape-f'),
    ('"\\n"', 'str-escape-n'),
    ('"\\r"', 'str-escape-r'),
    ('"\\t"', 'str-escape-t'),
    ('"\\u0041"', 'str-escape-u-ascii'),
    ('"\\u0000"', 'str-escape-u-nul'),
    ('"\\u00e9"', 'str-escape-u-latin1'),
    ('"\\u2028"', 'str-escape-u-bmp'),
    ('"\\ud83d\\ude00"', 'str-escape-surrogate-pair'),
    ('"\\ud83d"', 'str-escape-lone-surrogate'),
    ('"\\\\n"', 'str-escaped-backslash-then-letter'),
    ('"a\\\\/b"', 'str-escaped-backslash-then-solidus'),
    # an escaped backslash in front of EVERY ASCII letter and digit (a path
    # such as C:\\apps\\Users\\Nightly): none of them may come alive as an escape
    ('"' + ''.join('\\\\' + c for c in (
        'abcdefghijklmnopqrstuvwxyzABCDEFGHIJKLMNOPQRSTUVWXYZ0123456789'))
     + '"', 'str-escaped-backslash-then-every-alnum'),
    ('"\u00e9\u20ac"', 'str-raw-nonascii'),
    ('"\U0001f600"', 'str-raw-astral'),
    ('0', 'num-zero'),
    ('-0', 'num-neg-zero-int'),
    ('-0.0', 'num-neg-zero-float'),
    ('1', 'num-int'),
    ('-1', 'num-neg-int'),
    ('1.5', 'num-frac'),
    ('-1.5', 'num-neg-frac'),
    ('0.5', 'num-frac-lt1'),
    ('1.0', 'num-frac-integral'),
    ('1e3', 'num-exp'),
    ('1E3', 'num-exp-upper'),
    ('1e+3', 'num-exp-plus'),
    ('1e-3', 'num-exp-minus'),
    ('-2.5e-3', 'num-neg-frac-exp'),
    ('12345678901234567890', 'num-big-int'),
    ('-12345678901234567890', 'num-neg-big-int'),
    ('1e400', 'num-exp-overflow'),
    ('0e0', 'num-zero-exp'),
    ('0E5', 'num-zero-exp-upper'),
    ('-0e-3', 'num-neg-zero-exp'),
    ('0.0e+1', 'num-zero-frac-exp'),
    ('10', 'num-int-trailing-zero'),
    ('"\'"', 'str-only-apostrophe'),
    ('"\'tis"', 'str-leading-apostrophe'),
    ('"dogs\'"', 'str-trailing-apostrophe'),
    ('" a "', 'str-blanks-at-ends'),
    ('"\\"a\\""', 'str-escaped-dquotes-at-ends'),
    ('true', 'true'),
    ('false', 'false'),
    ('null', 'null'),
]
KEYS = [
    ('"a"', 'key-plain'),
    ('""', 'key-empty'),
    ('"\\u0061"', 'key-escape-u-ascii'),      # decodes to the same key as "a"
    ('"\\/"', 'key-escape-solidus'),
    ('"\'k\'"', 'key-apostrophes-at-ends'),
    ('"C:\\\\apps\\\\Users\\\\Nightly"', 'key-escaped-backslash-then-letter'),
]
PLAIN = set(['str-plain', 'num-int', 'num-zero', 'true', 'false', 'null',
             'str-empty'])
ATOM_IDX = dict((s, i) for i, (s, c) in enumerate(ATOMS))
KEY_IDX = dict((s, i) for i, (s, c) in enumerate(KEYS))

# representative subsets (by spelling) used for the children of size-2
# containers; see family()
REP_QUICK = ['"a"', '"\\/"', '"\\ud83d\\ude00"', '0', '-1.5', '1e3', 'true',
             'null']
CORE_QUICK = ['"\\n"', '-1', 'null', '"\\/"']
REP_THOROUGH = REP_QUICK + [
    '""', '"\\""', '"\\u00e9"', '"\U0001f600"', '-0', '1.0',
    '12345678901234567890', 'false']
CORE_THOROUGH = CORE_QUICK + ['"\\ud83d\\ude00"', '1.5', 'true', '""']

FORMS = ['var', 'assign', 'func-var', 'func-assign']
NAME = 'x'
FUNC = 'f'


def A(spelling):
    return ('a', ATOM_IDX[spelling])


def render(spec):
    k = spec[0]
    if k == 'a':
        return ATOMS[spec[1]][0]
    if k == 'l':
        return '[' + ', '.join(render(c) for c in spec[1]) + ']'
    return '{' + ', '.join(
        '%s: %s' % (KEYS[ki][0], render(c)) for ki, c in spec[1]) + '}'


def depth(spec):
    k = spec[0]
    if k == 'a':
        return 0
    if k == 'l':
        return 1 + max([depth(c) for c in spec[1]] or [0])
    return 1 + max([depth(c) for ki, c in spec[1]] or [0])


def spec_to_json(spec):
    """witness form: nested lists with spellings (JSON-able, self-contained)"""
    k = spec[0]
    if k == 'a':
        return ['a', ATOMS[spec[1]][0]]
    if k == 'l':
        return ['l', [spec_to_json(c) for c in spec[1]]]
    return ['o', [[KEYS[ki][0], spec_to_json(c)] for ki, c in spec[1]]]


def spec_from_json(j):
    k = j[0]
    if k == 'a':
        return ('a', ATOM_IDX[j[1]])
    if k == 'l':
        return ('l', tuple(spec_from_json(c) for c in j[1]))
    return ('o', tuple((KEY_IDX[kk], spec_from_json(c)) for kk, c in j[1]))


def dedupe(specs):
    seen = set()
    out = []
    for s in specs:
        if s not in seen:
            seen.add(s)
            out.append(s)
    return out


def family(max_depth, rep0, core0, wide_upto):
    """
    FULL(0) = every atom;  REP(0) = rep0;  CORE(0) = core0   (REP, CORE are
    sub-catalogues of the atoms).  For d >= 1, with K = the 4 key spellings:

      FULL(d) = atoms + [] + {}
              + [v]            for v in FULL(d-1)
              + [v, w]         for v, w in REP(d-1)
              + {k: v}         for k in K, v in FULL(d-1)
                 (if d > wide_upto: {"a": v} for v in FULL(d-1) and
                  {k: v} for the other three k, v in REP(d-1))
              + {k1: v, k2: w} for k1, k2 in K (duplicates included),
                                   v, w in CORE(d-1)
      REP(d)  = REP(0) + [] + {} + [v], {"a": v} for v in CORE(d-1)
              + [v0, v1] + {"a": v0, "": v1}     (v0, v1 = CORE(d-1)[-2:])
      CORE(d) = CORE(0) + [] + {} + [c], {"a": c} for c = CORE(d-1)[-1] and
                for c = CORE(d-1)[0]

    Everything is a plain product - nothing is sampled.  Returns
    FULL(max_depth) de-duplicated, in a fixed order, plus the level sizes.
    """
    atoms = [('a', i) for i in range(len(ATOMS))]
    full = list(atoms)
    rep = [A(s) for s in rep0]
    core = [A(s) for s in core0]
    empty = [('l', ()), ('o', ())]
    nk = len(KEYS)
    sizes = [{'depth': 0, 'full': len(full), 'rep': len(rep),
              'core': len(core)}]
    for d in range(1, max_depth + 1):
        nfull = list(atoms) + list(empty)
        nfull += [('l', (v,)) for v in full]
        nfull += [('l', (v, w)) for v in rep for w in rep]
        if d <= wide_upto:
            nfull += [('o', ((k, v),)) for k in range(nk) for v in full]
        else:
            nfull += [('o', ((0, v),)) for v in full]
            nfull += [('o', ((k, v),)) for k in range(1, nk) for v in rep]
        nfull += [('o', ((k1, v), (k2, w)))
                  for k1 in range(nk) for k2 in range(nk)
                  for v in core for w in core]
        nrep = [A(s) for s in rep0] + list(empty)
        for v in core:
            nrep += [('l', (v,)), ('o', ((0, v),))]
        v0, v1 = core[-2], core[-1]
        nrep += [('l', (v0, v1)), ('o', ((0, v0), (1, v1)))]
        ncore = [A(s) for s in core0] + list(empty)
        for c in (core[-1], core[0]):
            ncore += [('l', (c,)), ('o', ((0, c),))]
        full, rep, core = dedupe(nfull), dedupe(nrep), dedupe(ncore)
        sizes.append({'depth': d, 'full': len(full), 'rep': len(rep),
                      'core': len(core)})
    return full, sizes


def program(form, literal):
    if form == 'var':
        return 'var %s = %s;' % (NAME, literal)
    if form == 'assign':
        return '%s = %s;' % (NAME, literal)
    if form == 'func-var':
        return 'function %s() { var %s = %s; }' % (FUNC, NAME, literal)
    if form == 'func-assign':
        return 'function %s() { %s = %s; }' % (FUNC, NAME, literal)
    raise ValueError(form)


# --------------------------------------------------------------------------
# strict comparison and culprit localisation
# --------------------------------------------------------------------------
def strict_eq(a, b):
    if type(a) is not type(b):
        return False
    if isinstance(a, dict):
        if set(a) != set(b):
            return False
        return all(strict_eq(a[k], b[k]) for k in a)
    if isinstance(a, list):
        return len(a) == len(b) and all(
            strict_eq(x, y) for x, y in zip(a, b))
    if isinstance(a, float):
        return repr(a) == repr(b)
    return a == b


def compatible(spec, got):
    """could `got` be an (imperfect) rendering of spec? same container
    kinds, sizes and leaf types"""
    k = spec[0]
    if k == 'a':
        return type(got) is type(json.loads(ATOMS[spec[1]][0]))
    if k == 'l':
        return type(got) is list and len(got) == len(spec[1]) and all(
            compatible(c, g) for c, g in zip(spec[1], got))
    if type(got) is not dict:
        return False
    n = len(set(json.loads(KEYS[ki][0]) for ki, c in spec[1]))
    return len(got) == n


def culprits(spec, exp, got, out):
    """classes of ALL innermost spellings / containers at which exp and got
    part ways (exp = json.loads of render(spec)); collecting all of them
    keeps one defect from masking another inside the same value.  Naming
    only - the verdict itself is strict_eq."""
    k = spec[0]
    if k == 'a':
        out.add(ATOMS[spec[1]][1])
        return
    found = 0
    if k == 'l':
        n = len(spec[1])
        if type(got) is not list or len(got) != n:
            out.add('array-size%d' % n)
            return
        for c, e, g in zip(spec[1], exp, got):
            if not strict_eq(e, g):
                culprits(c, e, g, out)
                found += 1
        if not found:
            out.add('array-size%d' % n)
        return
    n = len(spec[1])
    if type(got) is not dict:
        out.add('object-size%d' % n)
        return
    decoded = [json.loads(KEYS[ki][0]) for ki, c in spec[1]]
    dup = len(set(decoded)) != len(decoded)
    last = {}
    for (ki, c), dk in zip(spec[1], decoded):
        last[dk] = (ki, c)
    missing = sorted(dk for dk in exp if dk not in got)
    extra = sorted((x for x in got if x not in exp), key=repr)
    for dk in missing:
        out.add(KEYS[last[dk][0]][1])
        found += 1
    if extra and not missing:
        out.add('object-size%d-extra-key' % n)
        found += 1
    pairs = [(dk, dk) for dk in sorted(exp) if dk in got]
    if len(missing) == 1 and len(extra) == 1:
        # presumably the same entry under a wrongly decoded key
        pairs.append((missing[0], extra[0]))
    for dk, gk in pairs:
        if strict_eq(exp[dk], got[gk]):
            continue
        found += 1
        if dup and (any(strict_eq(got[gk], json.loads(render(c)))
                        for ki, c in spec[1]) or
                    not compatible(last[dk][1], got[gk])):
            # which of the two duplicates won is part of the verdict
            out.add('object-duplicate-key-order')
            continue
        culprits(last[dk][1], exp[dk], got[gk], out)
    if not found:
        out.add('object-size%d' % n)


def leaves(spec, out=None):
    out = [] if out is None else out
    k = spec[0]
    if k == 'a':
        out.append(('a', ATOMS[spec[1]][0], ATOMS[spec[1]][1]))
    elif k == 'l':
        for c in spec[1]:
            leaves(c, out)
    else:
        for ki, c in spec[1]:
            out.append(('k', KEYS[ki][0], KEYS[ki][1]))
            leaves(c, out)
    return out


def shape(spec):
    k = spec[0]
    if k == 'a':
        return '_'
    if k == 'l':
        return '[' + ','.join(shape(c) for c in spec[1]) + ']'
    return '{' + ','.join(shape(c) for ki, c in spec[1]) + '}'


class Judge(object):
    """evaluates single cases against the real code"""

    def __init__(self):
        from calmjs.parse.parsers.es5 import parse
        from calmjs.parse.unparsers.extractor import ast_to_dict
        from calmjs.parse.exceptions import ECMASyntaxError
        self.parse = parse
        self.ast_to_dict = ast_to_dict
        self.ECMASyntaxError = ECMASyntaxError
        self.alone = {}

    def raw(self, src, fold):
        """-> ('ok', dict) | ('parse-error', repr) | ('raises', exc)"""
        with warnings.catch_warnings():
            # literal_eval of `"\/"` emits a SyntaxWarning; irrelevant here
            warnings.simplefilter('ignore')
            try:
                tree = self.parse(src)
            except self.ECMASyntaxError as e:
                return 'parse-error', repr(e)
            try:
                return 'ok', self.ast_to_dict(tree, fold_ops=fold)
            except Exception as e:
                return 'raises', e

    def raises_alone(self, kind, spelling, fold):
        key = (kind, spelling, fold)
        if key not in self.alone:
            lit = spelling if kind == 'a' else '{%s: 0}' % spelling
            st, res = self.raw(program('var', lit), fold)
            self.alone[key] = type(res).__name__ if st == 'raises' else None
        return self.alone[key]

    def case(self, spec, fold, form, bag, herr):
        """returns the outcome label"""
        lit = render(spec)
        src = program(form, lit)
        witness = {'spec': spec_to_json(spec), 'fold_ops': bool(fold),
                   'form': form, 'source': src}
        ctx = 'fold=%d|form=%s' % (1 if fold else 0, form)
        try:
            exp = json.loads(lit)
        except Exception as e:
            herr.append('catalogue literal %r is not JSON: %r' % (lit, e))
            return 'harness'
        st, res = self.raw(src, fold)
        if st == 'parse-error':
            # every catalogue program is a JSON literal bound by var or
            # assignment, hence ES5: no tree means no dictionary
            bag.add('C19|program-rejected-by-the-parser|top=%s|%s' % (
                spec[0], ctx), witness, repr(res)[:200])
            return 'parse-error'
        if st == 'raises':
            name = type(res).__name__
            who = 'structure:' + shape(spec)
            for kind, sp, cls in leaves(spec):
                if self.raises_alone(kind, sp, fold) == name:
                    who = cls
                    break
            bag.add('C19|raises-%s|atom=%s|%s' % (name, who, ctx), witness,
                    '%s; ast_to_dict raised %r' % (src, res))
            return 'raises'
        if not isinstance(res, dict):
            bag.add('C19|result-not-a-dict|%s' % ctx, witness,
                    '%s -> %r' % (src, res))
            return 'not-a-dict'
        scope = res
        if form.startswith('func'):
            fv = res.get(FUNC)
            if set(res) != set([FUNC]):
                bag.add('C19|extra-keys-outer|%s' % ctx, witness,
                        '%s -> %r' % (src, res))
                return 'extra-keys'
            if not (isinstance(fv, list) and fv and isinstance(fv[-1], dict)):
                bag.add('C19|function-body-map-missing|%s' % ctx, witness,
                        '%s -> %r' % (src, res))
                return 'name-missing'
            scope = fv[-1]
        if NAME not in scope:
            bag.add('C19|name-missing|top=%s|%s' % (spec[0], ctx), witness,
                    '%s -> %r' % (src, res))
            return 'name-missing'
        got = scope[NAME]
        out = 'equal'
        if not strict_eq(exp, got):
            who = set()
            culprits(spec, exp, got, who)
            for cls in sorted(who):
                bag.add('C19|value-differs|atom=%s|%s' % (cls, ctx),
                        witness,
                        '%s -> %r under %r; json.loads gives %r' % (
                            src, got, NAME, exp))
            out = 'value-differs'
        if set(scope) != set([NAME]):
            extra = sorted(repr(k) for k in scope if k != NAME)
            bag.add('C19|extra-keys|top=%s|%s' % (spec[0], ctx), witness,
                    '%s -> also binds %s' % (src, ', '.join(extra)))
            out = 'extra-keys'
        return out


def nontrivial(spec):
    return spec[0] != 'a' or ATOMS[spec[1]][1] not in PLAIN


def settings(tier):
    if tier == 'quick':
        return 3, REP_QUICK, CORE_QUICK, 1
    return 4, REP_THOROUGH, CORE_THOROUGH, 2


def run(tier, rep):
    max_depth, rep0, core0, wide_upto = settings(tier)
    # catalogue sanity (harness, not verdicts)
    for s, c in ATOMS + KEYS:
        try:
            json.loads(s)
        except Exception as e:
            rep.harness_errors.append('catalogue %r not JSON: %r' % (s, e))
    if len(set(c for s, c in ATOMS + KEYS)) != len(ATOMS) + len(KEYS):
        rep.harness_errors.append('catalogue classes not unique')
    if rep.harness_errors:
        return
    specs, sizes = family(max_depth, rep0, core0, wide_upto)
    combos = [(fold, form) for fold in (False, True) for form in FORMS]

    def work(items, idx):
        judge = Judge()
        bag = VioBag()
        herr = []
        outcomes = collections.Counter()
        n = nt = 0
        for spec in items:
            isnt = nontrivial(spec)
            for fold, form in combos:
                o = judge.case(spec, fold, form, bag, herr)
                outcomes[o] += 1
                n += 1
                nt += 1 if isnt else 0
            if len(herr) > 20:
                break
        return n, nt, bag, herr, dict(outcomes)

    total = nontriv = 0
    for n, nt, bag, herr, oc in pmap(work, specs):
        total += n
        nontriv += nt
        rep.bag.merge(bag)
        rep.harness_errors.extend(herr)
        rep.outcome(oc)
    expected = len(specs) * len(combos)
    if total != expected and not rep.harness_errors:
        rep.harness_errors.append(
            'evaluated %d cases, enumerated %d' % (total, expected))
    by_depth = collections.Counter(depth(s) for s in specs)
    rep.space('values', distinct_literals=len(specs),
              by_depth=dict(sorted(by_depth.items())), levels=sizes,
              atoms=len(ATOMS), keys=len(KEYS))
    rep.space('cases', fold_ops=2, forms=FORMS, cases=expected)
    judged = total - rep.cov['outcomes'].get('harness', 0)
    rep.cov['evaluations'] = total
    rep.cov['states'] = total
    rep.cov['transitions'] = total
    rep.cov['traces_validated_against_impl'] = judged
    rep.cov['distinct_nontrivial'] = nontriv
    rep.cov['rule'] = (
        'every value of FULL(%d) (see family() in mc/checks/c19.py: full '
        'atom catalogue along every chain of size-1 containers, reduced '
        'catalogues REP/CORE for the children of size-2 containers) x '
        'fold_ops x 4 binding forms, each parsed afresh with the public '
        'parse() and converted with ast_to_dict; non-trivial = a container '
        'or an atom needing sign / fraction / exponent / escape handling'
        % max_depth)
    rep.cov['bounds'] = {
        'max_depth': max_depth, 'max_container_size': 2,
        'atoms': [s for s, c in ATOMS], 'keys': [s for s, c in KEYS],
        'rep0': rep0, 'core0': core0, 'all_keys_upto_depth': wide_upto,
        'shrink': 'children of size-2 arrays from REP(d-1), of size-2 '
                  'objects from CORE(d-1); size-1 containers take every '
                  'value of FULL(d-1) (beyond depth all_keys_upto_depth '
                  'only under key "a"; the other keys take REP(d-1)); no '
                  'sampling',
    }
    k = max(1, len(specs) // 9)
    rep.sample([{'source': program(FORMS[i % 4], render(s))}
                for i, s in enumerate(specs[::k])])
    rep.assumptions += [
        'json.loads (CPython) is the reference JSON parser, fed the very '
        'literal text that is embedded in the program',
        'inside a function the dictionary of the statement is the last '
        'element (a dict) of the list the extractor binds to the function '
        'name',
        'duplicate keys follow json.loads (last one wins)',
    ]


def replay(w):
    judge = Judge()
    bag = VioBag()
    herr = []
    judge.case(spec_from_json(w['spec']), bool(w['fold_ops']), w['form'],
               bag, herr)
    if herr:
        from mc.boot import HarnessError
        raise HarnessError('; '.join(herr))
    return [{'sig': s, 'detail': v[2]} for s, v in sorted(bag.d.items())]
