# -*- coding: utf-8 -*-
"""
C07 - name obfuscation is a consistent, capture-free renaming.

(a) all binding structures in a small scope: scope trees with <= 3 scopes,
    every scope with a declaration profile x a reference profile, declared
    names x y (renamed to the first generated names a b) while a b also occur
    as free references and as declared source names;
(b) the boundary family for generated-name length / keyword collisions;
(c) S2(k) programs without with/eval.
Oracle: independent scope resolver R4 on the un-obfuscated and the obfuscated
output of the same printer.
"""
from __future__ import unicode_literals

import collections
import itertools

from mc import impl as I
from mc.pool import pmap
from mc.refmodel import parser as R2
from mc.refmodel import scope as R4
from mc.refmodel import tree as R3
from mc.refmodel.lexer import RESERVED
from mc.report import VioBag
from mc.space import grammar as G

DECLS = ['none', 'var-x', 'param-x', 'var-x-y', 'fn-x', 'param-x-var-a',
         'var-a', 'param-x-var-x']
REFS = ['', 'x', 'a', 'x a', 'y', 'x y a b']
KINDS = ['fdecl', 'fexpr-named', 'fexpr-anon', 'catch', 'getter', 'setter']


def scope_text(kind, decl, refs, inner, name='f'):
    """source text of one scope with its profile and nested scopes"""
    body = []
    param = ''
    if decl in ('param-x', 'param-x-var-a', 'param-x-var-x'):
        param = 'x'
    if decl == 'var-x':
        body.append('var x;')
    elif decl == 'var-x-y':
        body.append('var x, y = 1;')
    elif decl == 'fn-x':
        body.append('function x(){}')
    elif decl == 'param-x-var-a':
        body.append('var a;')
    elif decl == 'var-a':
        body.append('var a = 2;')
    elif decl == 'param-x-var-x':
        body.append('var x = 3;')
    for r in refs.split():
        body.append('%s;' % r)
    body.extend(inner)
    b = ' '.join(body)
    if kind == 'program':
        return b
    if kind == 'fdecl':
        return 'function %s(%s){ %s }' % (name, param, b)
    if kind == 'fexpr-named':
        return 'z = function %s(%s){ %s };' % (name, param, b)
    if kind == 'fexpr-anon':
        return 'z = function(%s){ %s };' % (param, b)
    if kind == 'catch':
        # the catch parameter plays the role of the parameter
        return 'try{}catch(%s){ %s }' % (param or 'e', b)
    if kind == 'getter':
        return 'o = {get p(){ %s }};' % b
    if kind == 'setter':
        return 'o = {set p(%s){ %s }};' % (param or 'v', b)
    raise ValueError(kind)


def profiles(decls, refs, kind):
    for d in decls:
        if kind == 'getter' and d.startswith('param'):
            continue
        if kind == 'program' and d.startswith('param'):
            continue
        for r in refs:
            yield d, r


def binding_structures(tier):
    """yield program texts"""
    if tier == 'quick':
        kinds2, kinds3 = KINDS, ['fdecl', 'fexpr-named', 'catch']
        refs3 = ['', 'x a', 'x y a b']
        decls3 = DECLS
        gprof3 = [('none', ''), ('var-x', 'x'), ('none', 'a'),
                  ('var-a', 'a x')]
    else:
        kinds2, kinds3 = KINDS, KINDS[:5]
        refs3 = ['', 'x a', 'y', 'x y a b']
        decls3 = DECLS
        gprof3 = [('none', ''), ('var-x', 'x'), ('none', 'a'),
                  ('var-a', 'a x'), ('fn-x', 'x a')]
    seen = set()
    # one scope
    for d, r in profiles(DECLS, REFS, 'program'):
        yield scope_text('program', d, r, [])
    # two scopes
    for gd, gr in profiles(DECLS, REFS, 'program'):
        for k in kinds2:
            for d, r in profiles(DECLS, REFS, k):
                yield scope_text('program', gd, gr,
                                 [scope_text(k, d, r, [])])
    # three scopes: chain and siblings
    for gd, gr in gprof3:
        for k1 in kinds3:
            for d1, r1 in profiles(decls3, refs3, k1):
                for k2 in kinds3:
                    for d2, r2 in profiles(decls3, refs3, k2):
                        inner = scope_text(k2, d2, r2, [], name='g')
                        yield scope_text('program', gd, gr, [
                            scope_text(k1, d1, r1, [inner])])
                        yield scope_text('program', gd, gr, [
                            scope_text(k1, d1, r1, []), inner])
    if tier != 'quick':
        # four scopes, chain only, reduced profiles
        prof4 = [('var-x', 'x a'), ('param-x', 'x y a b'), ('none', 'a'),
                 ('var-a', 'x a'), ('fn-x', 'x')]
        for ks in itertools.product(['fdecl', 'fexpr-named', 'catch'],
                                    repeat=3):
            for ps in itertools.product(prof4, repeat=3):
                t = scope_text(ks[2], ps[2][0], ps[2][1], [], name='h')
                t = scope_text(ks[1], ps[1][0], ps[1][1], [t], name='g')
                t = scope_text(ks[0], ps[0][0], ps[0][1], [t])
                yield scope_text('program', 'var-x', 'x a', [t])


def boundary_programs(tier):
    ns = [1, 2, 52, 53, 54, 55, 106, 225, 226, 227, 481, 482, 483, 489, 490,
          491, 492]
    if tier != 'quick':
        ns += [2861, 2862, 2863, 17700]
    for n in ns:
        names = ['v%d' % i for i in range(n)]
        uses = ' '.join('%s;' % v for v in names[::max(1, n // 40)])
        yield ('function f(){ var %s; %s do_; if_; in_; }' % (
            ', '.join(names), uses))
        yield ('function f(%s){ return function(){ %s } }' % (
            ', '.join(names[:min(n, 300)]), uses))
        if n > 30000:
            continue
        allrefs = ' '.join('%s;' % v for v in names)
        # every kind of binder as the next generated name after n locals
        yield ('function f(){ var %s; %s try{}catch(e){ e; } }' % (
            ', '.join(names), uses))
        yield ('function f(){ var %s; try{}catch(e){ e; %s } }' % (
            ', '.join(names), allrefs))
        yield ('function f(){ var %s; z = function g(p){ p; g; %s }; }' % (
            ', '.join(names), allrefs))
        yield ('function f(){ var %s; function g(p, q){ var r; p; q; r; %s } '
               '}' % (', '.join(names), allrefs))
        yield ('function f(){ var %s; o = {set s(p){ p; %s }}; }' % (
            ', '.join(names), allrefs))
        # one-letter names among many: locals, a parameter shadowed by an
        # inner local, an outer name used inside
        yield ('function f(n){ var %s, b, i; %s b = i; n; function g(){ '
               'var n, b; n = b; i; } }' % (', '.join(names), allrefs))
        yield ('function f(a, b){ var %s; %s return function(c){ var a; '
               'return a + b + c; }; }' % (', '.join(names), allrefs))
        # more code after a getter / setter / function expression
        yield ('function f(){ var w0 = u(); var o = {get s(){ var q; return '
               'q + w0; }}; var %s; %s var w1 = 2; w1; w2; var w2; }; '
               'var t0; t0;' % (', '.join(names[:60]), uses))


def label_programs():
    """labels spelled like a variable / parameter / function of the same or
    of an enclosing function (labels are a namespace of their own: they
    neither bind nor capture a variable)"""
    outers = [('var', 'function f(){ var L = 1, a = 2; %s return L + a; }'),
              ('param', 'function f(L, a){ %s return L + a; }'),
              ('fn', 'function f(){ function L(){} var a; %s L(); a; }'),
              ('catch', 'function f(){ try{}catch(L){ var a; %s L; a; } }')]
    bodies = [
        'L: for(;;){ a = L; break L; }',
        'L: while(a){ L; continue L; }',
        'function g(){ L: for(;;){ a = L; break L; } }',
        'function g(p){ L: for(var i in p){ a[i] = L[i]; continue L; } }',
        'z = function(){ a: for(;;){ L = a; break a; } };',
        'function g(){ var q; L: do { q = L + a; break L; } while(q) }',
        'function g(){ function h(){ L: { a = L; break L; } } }',
        'L: a: for(;;){ break a; continue L; }',
    ]
    for name in ('x', 'data'):
        for _, outer in outers:
            for body in bodies:
                yield (outer % body).replace('L', name)


def make_printers(conf):
    """(plain printer, obfuscating printer) for a configuration"""
    from calmjs.parse.unparsers.es5 import Unparser, minify_printer
    from calmjs.parse import rules
    from calmjs.parse.lexers.es5 import Lexer
    g, s, kind = conf
    if kind == 'minify':
        return (minify_printer(), minify_printer(
            obfuscate=True, obfuscate_globals=g, shadow_funcname=s))
    if kind == 'minify-drop':
        return (minify_printer(drop_semi=True), minify_printer(
            obfuscate=True, obfuscate_globals=g, shadow_funcname=s,
            drop_semi=True))
    ob = rules.obfuscate(obfuscate_globals=g, shadow_funcname=s,
                         reserved_keywords=Lexer.keywords_dict.keys())
    return (Unparser(rules=(rules.indent(indent_str='  '),)),
            Unparser(rules=(ob, rules.indent(indent_str='  '))))


def erase_identifiers(t):
    if isinstance(t, R3.N):
        kind, fields = t
        if kind == 'Identifier':
            return R3.N((kind, (('value', '#'),)))
        return R3.N((kind, tuple((k, erase_identifiers(v))
                                 for k, v in fields)))
    if isinstance(t, tuple):
        return tuple(erase_identifiers(x) for x in t)
    return t


def canon(binders):
    first = {}
    out = []
    for i, b in enumerate(binders):
        if b not in first:
            first[b] = i
        out.append(first[b])
    return out


class Acc(object):
    def __init__(self):
        self.bag = VioBag()
        self.out = collections.Counter()
        self.cases = 0
        self.nontrivial = 0
        self.traces = 0
        self.renamed = 0
        self.samples = []

    def merge(self, o):
        self.bag.merge(o.bag)
        self.out.update(o.out)
        self.cases += o.cases
        self.nontrivial += o.nontrivial
        self.traces += o.traces
        self.renamed += o.renamed
        if len(self.samples) < 30:
            self.samples.extend(o.samples[:2])


def conf_name(conf):
    return 'globals=%d|shadow=%d|%s' % (conf[0], conf[1], conf[2])


def check_text(acc, text, confs, warmup=None):
    """warmup: a text printed first with the SAME printer objects (the
    property quantifies over printer configurations, and a printer object is
    reusable - C14 - so the second use must be as good as the first)"""
    acc.cases += 1
    out = I.run_parse(text, keep_node=True)
    if out.kind != 'accept':
        acc.out['input-not-accepted'] += 1
        return
    for conf in confs:
        cn = conf_name(conf)
        w = {'text': text, 'conf': list(conf)}
        if warmup is not None:
            w['warmup'] = warmup
            cn = cn + '|reused-printer'
        try:
            pp, po = make_printers(conf)
            if warmup is not None:
                first = I.run_parse(warmup, keep_node=True)
                list(pp(first.node))
                list(po(first.node))
            plain = ''.join(f.text for f in pp(out.node))
            frags = list(po(out.node))
            obf = ''.join(f.text for f in frags)
        except Exception as e:
            acc.bag.add('C07|print-raises|%s|%s' % (type(e).__name__, cn), w,
                        repr(e))
            continue
        rp = R2.parse(plain)
        ro = R2.parse(obf)
        if rp.verdict != 'accept':
            acc.out['plain output not readable (C01/C02 report it)'] += 1
            continue
        if R4.uses_with_or_eval(rp.tree):
            acc.out['out of scope: with / eval / arguments'] += 1
            continue
        acc.traces += 1
        if ro.verdict != 'accept':
            acc.bag.add('C07|obfuscated-output-does-not-parse|%s|%s' % (
                getattr(ro, 'reason', 'abstain'), cn), w,
                'plain %r obfuscated %r' % (plain, obf))
            continue
        io = I.run_parse(obf)
        if io.kind != 'accept':
            acc.bag.add('C07|implementation-rejects-obfuscated-output|%s' %
                        cn, w, 'obfuscated %r: %s' % (obf, io.msg))
        # differs only in identifier spellings
        if erase_identifiers(rp.neutral) != erase_identifiers(ro.neutral):
            acc.bag.add('C07|differs-in-more-than-identifier-spellings|%s|%s'
                        % (R3.diff_kind(erase_identifiers(rp.neutral),
                                        erase_identifiers(ro.neutral)), cn),
                        w, 'plain %r obfuscated %r' % (plain, obf))
            continue
        tp = [(t.type, t.value) for t in rp.tokens]
        to = [(t.type, t.value) for t in ro.tokens]
        if len(tp) != len(to) or any(
                a != b and not (a[0] == 'id' and b[0] == 'id')
                for a, b in zip(tp, to)):
            acc.bag.add('C07|token-sequence-differs-beyond-identifiers|%s' %
                        cn, w, 'plain %r obfuscated %r' % (plain, obf))
            continue
        op = R4.resolve(rp.tree)
        oo = R4.resolve(ro.tree)
        if len(op) != len(oo):
            acc.bag.add('C07|identifier-occurrences-differ|%s' % cn, w, '')
            continue
        changed = sum(1 for a, b in zip(op, oo) if a[1] != b[1])
        if changed:
            acc.nontrivial += 1
            acc.renamed += changed
            if len(acc.samples) < 2:
                acc.samples.append({'text': text, 'conf': cn, 'plain': plain,
                                    'obfuscated': obf})
        detail = 'plain %r obfuscated %r' % (plain, obf)
        cp = canon([o[2] for o in op])
        co = canon([o[2] for o in oo])
        if cp != co:
            i = [k for k in range(len(cp)) if cp[k] != co[k]][0]
            acc.bag.add('C07|binding-structure-changed|%s->%s|role=%s|%s' % (
                op[i][2][0], oo[i][2][0], op[i][3], cn), w,
                'occurrence %d (%s -> %s): %s' % (
                    i, op[i][1], oo[i][1], detail))
            continue
        for a, b in zip(op, oo):
            if a[2][0] == 'free' and a[1] != b[1]:
                acc.bag.add('C07|free-name-renamed|role=%s|%s' % (a[3], cn),
                            w, '%s -> %s: %s' % (a[1], b[1], detail))
                break
            if a[2][0] in ('var',) and a[2][1] == 0 and not conf[0] and \
                    a[1] != b[1]:
                acc.bag.add('C07|top-level-name-renamed-without-'
                            'obfuscate_globals|role=%s|%s' % (a[3], cn), w,
                            '%s -> %s: %s' % (a[1], b[1], detail))
                break
            if a[1] != b[1] and b[1] in RESERVED:
                acc.bag.add('C07|generated-name-is-reserved|%s' % cn, w,
                            '%s -> %s' % (a[1], b[1]))
                break
        # fragments: a renamed identifier records its original name
        for f in frags:
            if f.name is not None and f.name == f.text:
                acc.bag.add('C07|fragment-name-equals-text|%s' % cn, w,
                            repr(f))
                break


def run(tier, rep):
    flag4 = [(g, s, 'minify') for g in (False, True) for s in (False, True)]
    others = [(True, False, 'minify-drop'), (True, False, 'indent'),
              (False, True, 'indent')]
    texts = list(binding_structures(tier))
    if tier == 'quick':
        # three-scope programs: the two extreme flag combinations only
        small = [t for t in texts if t.count('{') <= 2]
        big = [t for t in texts if t.count('{') > 2]
        items = [(t, flag4 + others) for t in small]
        items += [(t, [flag4[0], flag4[3]]) for t in big]
    else:
        items = [(t, flag4 + others) for t in texts]
    bnd = list(boundary_programs(tier))
    items += [(t, flag4 + others) for t in bnd]
    lab = list(label_programs())
    items += [(t, flag4 + others) for t in lab]
    rep.space('labels-spelled-like-variables', programs=len(lab))
    s2 = [G.render(l) for l in (
        G.programs(2) if tier != 'quick' else
        G.programs(1) + G.chain_programs(2, G.CORE_FORMS))]
    items += [(t, [(True, False, 'minify'), (False, False, 'minify')])
              for t in s2]

    # the same spaces once more through printer objects that were used before
    reuse = [(t, flag4[:1] + flag4[3:] + others[:1], 'function w(p){ var q; '
              'return p + q; }') for t in bnd]
    reuse += [(t, flag4[:1], 'var k = 1;') for t in texts
              if t.count('{') <= 1]
    items += reuse

    def work(chunk, idx):
        acc = Acc()
        for it in chunk:
            check_text(acc, *it)
        return acc
    total = Acc()
    for a in pmap(work, items):
        total.merge(a)
    rep.bag.merge(total.bag)
    rep.space('binding-structures', programs=len(texts))
    rep.space('boundary-family', programs=len(bnd))
    rep.space('reused-printer', cases=len(reuse))
    rep.space('S2', programs=len(s2))
    rep.cov['states'] = total.cases
    rep.cov['transitions'] = total.traces
    rep.cov['traces_validated_against_impl'] = total.traces
    rep.cov['evaluations'] = total.traces
    rep.cov['distinct_nontrivial'] = total.nontrivial
    rep.cov['identifier_occurrences_renamed'] = total.renamed
    rep.outcome(total.out)
    rep.sample(total.samples)
    rep.cov['rule'] = (
        'every scope tree with <= 3 scopes (chain and siblings) x scope kind '
        'x declaration profile x reference profile; the boundary family; S2 '
        'programs; each x printer configuration.  states = programs, '
        'transitions = evaluations = (program, configuration) pairs judged '
        'with R4; '
        'non-trivial = at least one identifier was renamed')
    rep.cov['bounds'] = {'scopes': 3 if tier == 'quick' else 4,
                         'decl_profiles': DECLS, 'ref_profiles': REFS,
                         'kinds': KINDS}
    rep.assumptions += [
        'R4 (mc/refmodel/scope.py) implements ES5 scoping (hoisting through '
        'blocks and catch blocks, function-expression name scope, catch '
        'parameter scope, labels as their own namespace)',
        'programs using with / eval / arguments are out of scope']


def replay(w):
    acc = Acc()
    check_text(acc, w['text'], [tuple(w['conf'])], w.get('warmup'))
    return [{'sig': s, 'detail': v[2]} for s, v in acc.bag.d.items()]
