# -*- coding: utf-8 -*-
"""
C05 - every `/` is read as division or regex start as the grammar dictates.

For every viable prefix of S1 (every grammatical position reachable in n
lexemes) x gap layout x `/`-tail, the text is parsed by the implementation
and by R2, whose context-aware scanner fixes the goal symbol for each `/`.
"""
from __future__ import unicode_literals

import collections

from mc import impl as I
from mc import judge
from mc.explore import trie
from mc.pool import pmap
from mc.refmodel import parser as R2
from mc.refmodel import tree as R3
from mc.report import VioBag
from mc.space import alphabets as AB
from mc.space import grammar as G

GAPS = [('none', ''), ('SP', ' '), ('LF', '\n'), ('COMMENT', '/*c*/'),
        ('COMMENT-SP', '/*c*/ '), ('LF-COMMENT', '\n/*c*/'),
        ('LINE-COMMENT', '//c\n')]
TAILS = [('re-flags', '/b/g'), ('re-member', '/b/.c'), ('div', '/ b'),
         ('diveq', '/= b'), ('re-eq-member', '/=/.c'),
         ('re-then-stmt', '/b/g; c'), ('div-div', '/ b / c')]

GAPS_Q = [g for g in GAPS if g[0] in ('none', 'SP', 'LF', 'COMMENT',
                                       'LF-COMMENT')]
TAILS_Q = [t for t in TAILS if t[0] in ('re-flags', 'div', 'diveq',
                                        're-eq-member')]

# every ES5 WhiteSpace code point (7.2: TAB VT FF SP NBSP BOM and category
# Zs) as the gap, alone and next to an ordinary blank.  They carry the gap
# class of the ordinary blank ('SP'): the decision at the slash may not
# depend on WHICH white space precedes it, so anything they do differently
# from a blank is a signature no listed finding has
WS_GAPS = [('SP', c) for c in (
    '\t\x0b\x0c\xa0\ufeff\u1680\u2000\u2001\u2002\u2003\u2004\u2005'
    '\u2006\u2007\u2008\u2009\u200a\u202f\u205f\u3000')] + [
    ('SP', '\xa0 '), ('SP', ' \xa0'), ('SP', '\t\x0c'),
    ('COMMENT-SP', '/*c*/\xa0'), ('LF', '\n\u3000')]

A_DIV = ['a', '1', ')', ']', '}', '(', '{', '[', ';', '+', '++', '=', ',',
         'if', 'while', 'for', 'with', 'function', 'return', 'typeof', '.',
         'in', 'get', trie.LF, 'else', 'do', ':', 'this', "'s'"]


# the constructs the property enumerates (and a few compositions), as explicit
# prefixes; the expected goal is decided by R2, this list only drives
CONTEXTS = [
    'if ( a )', 'while ( a )', 'for ( ; ; )', 'for ( a in b )',
    'for ( var i = 0 ; i < 1 ; i ++ )', 'with ( a )', 'if ( ( a ) )',
    'if ( a ( b ) )', 'while ( a ) if ( b )', 'if ( a ) ; else',
    'if ( a ) b ; else', 'do', '{ }', '{ { } }', 'if ( a ) { }',
    'if ( a ) { } else { }', 'function f ( ) { }', 'try { } finally { }',
    'try { } catch ( e ) { }', 'switch ( a ) { }', 'while ( a ) { }',
    'l :', 'l : { }', 'return', 'typeof', 'void', 'delete', 'new', 'x =',
    'x +=', 'x +', 'x -', 'x *', 'x %', 'x <', 'x >>', 'x ==', 'x &&',
    'x ||', 'x in', 'x instanceof', '(', '[', 'x , ', 'f ( a ,', 'x ?',
    'x ? y :', '!', '~', '+', '-', '++', '--', 'switch ( a ) { case',
    'switch ( a ) { case 1 :', 'switch ( a ) { default :', ';', 'a ;',
    '{ a ; }', 'x = { } ;', 'var x =', 'throw', 'x = {', '{', 'x = { p :',
    'a', 'x = a', '1', '1.5', "'s'", '/r/', 'x = /r/', 'this', 'true',
    'null', 'a ( b )', 'a ( )', '( a )', 'x = ( a )', 'a [ b ]', 'x = [ ]',
    'x = { }', 'x = { p : 1 }', 'x = function ( ) { }',
    'x = function f ( ) { }', '( { } )', '( function ( ) { } )',
    '( function ( ) { } ( ) )', 'a ++', 'a --', 'x = a ++', 'a . b',
    'a . if', 'a . return', 'a . typeof', 'a . in', 'x = a . if',
    'new a ( )', 'new a', 'x = ( a ) ( b )', 'if ( a ) b', 'a = b',
    'x = { get p ( ) { } }', 'f ( function ( ) { } )', 'x = [ { } ]',
    'if ( a ) x = { }', 'x = a ? { } : { }', 'while ( a ) x ++',
    'do { } while ( a )', 'do x ; while ( a )', 'if ( a ) ( b )',
    'if ( a ) [ b ]', 'with ( a ) b', 'a\n++', 'a ++\n', 'x = y\n++',
    'typeof a', 'typeof ( a )', 'return a', 'return ( a )', 'return { }',
    'case', 'get', 'set', 'x = get', 'a . get', 'a . set',
    'a .\\n if', 'a . /*c*/ if', 'a .\\n while ( b )', 'a . /*c*/ return',
    'x = a .\\n delete', 'a\\n. if', 'a . if . b', 'a . if [ 0 ]',
    'false', 'undefined', 'x = null', 'x = true', 'a || null', 'f ( null',
    '[ null', 'x = { p : null',
]


def opener_context(toks, idx):
    """for a `)` or `}` at toks[idx]: class of the token before the matching
    opener (and the one before that for `(`)."""
    close = toks[idx].value
    opn = {')': '(', '}': '{', ']': '['}[close]
    depth = 0
    j = idx
    while j >= 0:
        t = toks[j]
        if t.type == 'punct' and t.value == close:
            depth += 1
        elif t.type == 'punct' and t.value == opn:
            depth -= 1
            if depth == 0:
                break
        j -= 1
    if j <= 0:
        return 'START' if j == 0 else 'UNMATCHED'
    return judge.tclass(toks[j - 1])


def slash_info(text, ref, slash_off):
    """(before-class, expected goal) from the reference's point of view"""
    toks = list(ref.tokens)
    tk = getattr(ref, 'tok', None)
    if tk is not None:
        toks.append(tk)
    idx = None
    for i, t in enumerate(toks):
        if t.start == slash_off:
            idx = i
            break
    if idx is None:
        return 'unreached', 'unreached'
    goal = 'regex' if toks[idx].type == 'regex' else (
        'div' if toks[idx].type == 'punct' else toks[idx].type)
    if idx == 0:
        return 'START', goal
    p = toks[idx - 1]
    c = judge.tclass(p)
    if p.type == 'punct' and p.value in (')', '}'):
        c = '%s-after-%s' % (c, opener_context(toks, idx - 1))
    elif p.type == 'id' and idx >= 2 and toks[idx - 2].type == 'punct' and \
            toks[idx - 2].value == '.':
        c = 'PROPNAME' if c != 'ID' else 'ID'
    return c, goal


class Acc(object):
    def __init__(self):
        self.bag = VioBag()
        self.out = collections.Counter()
        self.cases = 0
        self.nontrivial = 0
        self.traces = 0
        self.goals = collections.Counter()
        self.samples = []

    def merge(self, o):
        self.bag.merge(o.bag)
        self.out.update(o.out)
        self.goals.update(o.goals)
        self.cases += o.cases
        self.nontrivial += o.nontrivial
        self.traces += o.traces
        if len(self.samples) < 30:
            self.samples.extend(o.samples[:2])


def check_text(acc, text, slash_off, gapname, tailname):
    out = I.run_parse(text)
    ref = R2.parse(text)
    acc.cases += 1
    acc.out['impl=%s ref=%s' % (out.kind, ref.verdict)] += 1
    if ref.verdict == 'abstain' or out.kind == 'crash':
        return
    acc.traces += 1
    before, goal = slash_info(text, ref, slash_off)
    acc.goals[goal] += 1
    if ref.verdict == 'accept':
        acc.nontrivial += 1
        if len(acc.samples) < 2:
            acc.samples.append({'text': text, 'goal_at_slash': goal})
    w = {'text': text, 'slash': slash_off, 'gap': gapname, 'tail': tailname}
    tk = 're' if tailname.startswith('re') else 'div'
    if goal == 'unreached':
        # the reference gave up before the slash: not a statement about `/`
        acc.out['disputed-before-slash (C03/C04)'] += 1
        return
    if ref.verdict == 'accept' and out.kind == 'accept':
        if out.tree != ref.neutral:
            acc.bag.add('C05|tree-differs|before=%s|gap=%s|tail=%s|'
                        'expected=%s|%s' % (
                            before, gapname, tk, goal,
                            R3.diff_kind(out.tree, ref.neutral)), w,
                        R3.first_diff(out.tree, ref.neutral))
    elif ref.verdict == 'accept':
        off = judge.impl_error_offset(text, out.msg)
        if off is not None and off < slash_off:
            acc.out['disputed-before-slash (C03/C04)'] += 1
            return
        at = 'at-slash' if off == slash_off else (
            'after-slash' if off is not None else 'end')
        acc.bag.add('C05|impl-rejects|before=%s|gap=%s|tail=%s|expected=%s|'
                    '%s|%s' % (before, gapname, tk, goal,
                               judge.msg_kind(out.msg), at), w, out.msg)
    elif out.kind == 'accept':
        if ref.offset < slash_off:
            acc.out['disputed-before-slash (C03/C04)'] += 1
            return
        rel = 'at-slash' if ref.offset == slash_off else 'after-slash'
        acc.bag.add('C05|impl-accepts|before=%s|gap=%s|tail=%s|expected=%s|'
                    'ref-rejects-%s' % (before, gapname, tk, goal, rel),
                    w, 'reference rejects at %d: %s' % (
                        ref.offset, ref.reason))


def viable_prefixes(alphabet, depth):
    """prefixes viable for at least one side (E1), without judging"""
    layer = [()]
    out = [()]
    for d in range(1, depth + 1):
        cands = [p + (i,) for p in layer for i in range(len(alphabet))]

        def work(items, idx):
            flags = []
            for p in items:
                text = trie.render(alphabet, p)
                o = I.run_parse(text)
                r = R2.parse(text)
                idead = o.kind == 'reject' and not o.eof and \
                    o.exc_type == 'ECMASyntaxError' and \
                    not o.msg.startswith('Unterminated')
                rdead = r.verdict == 'reject' and not r.at_eof and \
                    not r.reason.startswith('lex:unterminated')
                disputed = (
                    (o.kind == 'accept' and r.verdict == 'accept' and
                     o.tree != r.neutral) or
                    (o.kind == 'accept' and r.verdict == 'reject') or
                    (r.verdict == 'accept' and o.kind == 'reject'
                     and not o.eof))
                flags.append((not (idead and rdead), disputed))
            return flags
        res = pmap(work, cands)
        n = len(res)
        nxt = []
        for i, flags in enumerate(res):
            for p, (f, disp) in zip(cands[i::n], flags):
                if f:
                    nxt.append(p)
                if disp:
                    DISPUTED.add(p)
        layer = sorted(nxt)
        out.extend(layer)
    return out


# prefixes on which the two parsers already disagree as complete programs:
# whatever follows is not a statement about the slash (C03/C04's business)
DISPUTED = set()


def run(tier, rep):
    total = Acc()
    plans = [('A', AB.A, 2 if tier == 'quick' else 3),
             ('A_DIV', A_DIV, 3 if tier == 'quick' else 4)]
    items = []
    seen = set()
    for name, alpha, depth in plans:
        pre = viable_prefixes(alpha, depth)
        rep.space('S1-viable(%s,%d)' % (name, depth), lexemes=len(alpha),
                  prefixes=len(pre))
        rep.add(states=len(pre))
        nd = 0
        for p in pre:
            if p in DISPUTED:
                nd += 1
                continue
            d0 = len(p)
            base = trie.render(alpha, p)
            for gn, g in (GAPS if name == 'A' and d0 <= 2 else GAPS_Q):
                for tn, t in (TAILS if name == 'A' and d0 <= 2 else TAILS_Q):
                    if not base and gn != 'none':
                        head = g
                    else:
                        head = base + g
                    text = head + t
                    if text in seen:
                        continue
                    seen.add(text)
                    items.append((text, len(head), gn, tn))
    # the constructs the property names, alone / after a statement / nested
    nctx = 0
    for c in CONTEXTS:
        c = c.replace('\\n', '\n')
        for wrap in ('%s', 'y ; %s', '{ %s', 'function g ( ) { %s',
                     'if ( q ) %s'):
            base = wrap % c
            for gn, g in GAPS:
                for tn, t in TAILS:
                    for closing in ('', ' ; }' if '{' in wrap else ' ;'):
                        text = base + g + t + closing
                        if text in seen:
                            continue
                        seen.add(text)
                        nctx += 1
                        items.append((text, len(base + g), gn, tn))
    rep.space('named-contexts', contexts=len(CONTEXTS), texts=nctx)
    nws = 0
    for c in CONTEXTS:
        c = c.replace('\\n', '\n')
        for wrap in (('%s',) if tier == 'quick' else
                     ('%s', 'y ; %s', '{ %s', 'if ( q ) %s')):
            base = wrap % c
            for gn, g in WS_GAPS:
                for tn, t in (TAILS_Q if tier == 'quick' else TAILS):
                    text = base + g + t
                    if text in seen:
                        continue
                    seen.add(text)
                    nws += 1
                    items.append((text, len(base + g), gn, tn))
    rep.space('named-contexts-x-white-space', gaps=len(WS_GAPS), texts=nws)
    # S2 programs with a regex / a division planted after every lexeme
    progs = G.programs(1) if tier == 'quick' else G.programs(2)[::3]
    # programs on which the two parsers disagree without any planted slash
    # are C03's business

    def agree(chunk, idx):
        out = []
        for lex in chunk:
            t = G.render(lex)
            o = I.run_parse(t)
            r = R2.parse(t)
            out.append(o.kind == 'accept' and r.verdict == 'accept' and
                       o.tree == r.neutral)
        return out
    flags = []
    res = pmap(agree, progs)
    flags = [None] * len(progs)
    for i, fl in enumerate(res):
        flags[i::len(res)] = fl
    nskip = sum(1 for f in flags if not f)
    progs = [p for p, f in zip(progs, flags) if f]
    rep.space('planted-in-S2', programs=len(progs),
              skipped_disputed_programs=nskip)
    for lex in progs:
        for i in range(1, len(lex) + 1):
            head = ' '.join(lex[:i])
            rest = ' '.join(lex[i:])
            for tn, t in TAILS[:3]:
                for gn, g in GAPS[1:3]:
                    text = head + g + t + ' ' + rest
                    if text in seen:
                        continue
                    seen.add(text)
                    items.append((text, len(head + g), gn, tn))

    def work(chunk, idx):
        acc = Acc()
        for text, off, gn, tn in chunk:
            check_text(acc, text, off, gn, tn)
        return acc
    for a in pmap(work, items):
        total.merge(a)
    rep.space('slash-cases', texts=len(items), gaps=[g for g, _ in GAPS],
              tails=[t for t, _ in TAILS])
    rep.bag.merge(total.bag)
    rep.cov['transitions'] = total.cases
    rep.cov['traces_validated_against_impl'] = total.traces
    rep.cov['evaluations'] = total.cases
    rep.cov['distinct_nontrivial'] = total.nontrivial
    rep.cov['goal_expected_by_reference'] = dict(total.goals)
    rep.outcome(total.out)
    rep.sample(total.samples)
    rep.cov['rule'] = (
        'every prefix of S1 viable for at least one parser (states) x gap '
        'layout x slash tail, plus every S2 program with a slash tail '
        'planted after every lexeme (transitions = texts parsed by both). '
        'non-trivial = R2 accepts the text')
    rep.cov['bounds'] = dict((n, d) for n, a, d in plans)
    rep.assumptions += ['R2 context-aware scanning decides the goal symbol '
                        'for each slash exactly as the syntactic grammar '
                        'permits']


def replay(w):
    acc = Acc()
    check_text(acc, w['text'], w['slash'], w['gap'], w['tail'])
    return [{'sig': s, 'detail': v[2]} for s, v in acc.bag.d.items()]
