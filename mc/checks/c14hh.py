# -*- coding: utf-8 -*-
"""
C14, histories of the convenience entry points applied to SOURCE TEXT.

`calmjs.parse.es5.pretty_print(text)` / `.minify_print(text)` must return
what the explicit composition  print(parse(text))  returns - on every call,
whatever the same helper was given before.  The pool holds the texts on which
a helper that kept anything from one call to the next (a parser, a lexer, a
comment buffer, a printer) would show it: texts that end without a semicolon
in an operand / a closing bracket / a restricted keyword, texts that begin
with a regular expression literal / a line break, texts with a trailing
comment, texts that are rejected (half-way, right after a `.`).

Operation = (helper, text, with_comments); EVERY sequence of <= k operations
(k = 2 quick, 3 thorough) is executed, all k calls judged.  Baseline of an
operation = the explicit composition in a fresh process (value, or the type
and message of the exception).
"""
from __future__ import unicode_literals

import collections
import itertools

from mc.pool import pmap
from mc.explore import history as H
from mc.checks import c14 as C

POOL = [
    'a = b',                        # ends in an operand, no semicolon
    '/x/.test(s)',                  # begins with a regular expression
    'a = 1; // trailing',           # trailing comment, nothing after it
    'b = 2;',
    'f(a)',                         # ends in a closing parenthesis
    'while (a) break',              # ends in a restricted keyword
    '\nb = 1\nc = 2',               # begins with a line break, needs ASI
    'foo.',                         # rejected right after a dot
    'if (a) {',                     # rejected at the end of input
    'return\nb',                    # restricted production at the start
    'x = {get p() { return 1 }} /* c */',
]
HELPERS = ('pretty_print', 'minify_print')


def ops():
    return [(h, i, wc) for h in HELPERS for i in range(len(POOL))
            for wc in (False, True)]


def outcome(fn):
    try:
        return ('text', fn())
    except Exception as e:
        return ('raised', type(e).__name__, str(e))


def baselines():
    L = C.lib()
    out = {}
    for h, i, wc in ops():
        printer = getattr(L.unparser, h)
        out[h, i, wc] = outcome(
            lambda: printer(L.parser.parse(POOL[i], with_comments=wc)))
    return out


def run_sequence(L, base, seq):
    """-> [(signature, detail)]"""
    vio = []
    for k, (h, i, wc) in enumerate(seq):
        helper = getattr(L.pkg.es5, h)
        got = outcome(lambda: helper(POOL[i], with_comments=wc))
        want = base[h, i, wc]
        if got != want:
            before = 'first-call' if k == 0 else 'after-%s' % (
                'a-rejected-text' if any(
                    base[o][0] == 'raised' for o in seq[:k])
                else 'accepted-texts')
            vio.append((
                'C14|helper-differs-from-explicit-composition|helper=%s|%s|'
                'explicit=%s|helper-gave=%s' % (
                    h, before, want[0], got[0]),
                'call %d: explicit %r helper %r' % (
                    k, want[1:][:1] and str(want[1])[:100],
                    str(got[1])[:100])))
    return vio


def run(tier, rep):
    base = H.fresh_child(baselines)
    if base != H.fresh_child(baselines):
        rep.harness_errors.append(
            'helper baselines differ between two fresh processes')
        return
    depth = 2 if tier == 'quick' else 3
    O = ops()
    seqs = []
    for k in range(1, depth + 1):
        seqs.extend(itertools.product(O, repeat=k))

    def one(seq):
        return run_sequence(C.lib(), base, seq)

    def work(chunk, idx):
        # the worker itself never calls the library: every sequence runs in
        # a child forked from it, i.e. in a process whose whole history is
        # that sequence
        C.lib()
        found = {}
        calls = 0
        for seq in chunk:
            calls += len(seq)
            for sig, detail in H.fresh_child(one, seq):
                e = found.setdefault(sig, [0, None, None])
                e[0] += 1
                if e[1] is None or len(seq) < len(e[1]):
                    e[1], e[2] = seq, detail
        return len(chunk), calls, found

    ncases = ncalls = 0
    found = {}
    for a, b, fd in pmap(work, seqs):
        ncases += a
        ncalls += b
        for sig, (n, seq, detail) in fd.items():
            e = found.setdefault(sig, [0, None, None])
            e[0] += n
            if e[1] is None or len(seq) < len(e[1]):
                e[1], e[2] = seq, detail

    def alone(seq):
        return run_sequence(C.lib(), base, seq)

    for sig in sorted(found):
        n, seq, detail = found[sig]
        got = dict(H.fresh_child(alone, seq))
        if not got:
            rep.harness_errors.append(
                'helper sequence %r gave %s in a worker but not alone in a '
                'fresh process' % (seq, sig))
            continue
        for s in ([sig] if sig in got else sorted(got)):
            rep.bag.add(s, {'helper_calls': [
                [h, POOL[i], wc] for h, i, wc in seq]}, got[s])
            if s == sig:
                rep.bag.d[s][0] += n - 1
    rep.cov['states'] += ncases
    rep.cov['evaluations'] += ncases
    rep.cov['distinct_nontrivial'] += ncases - len(O)
    rep.cov['transitions'] += ncalls
    rep.cov['traces_validated_against_impl'] += ncalls
    rep.space('helper-histories', operations=len(O), max_calls=depth,
              sequences=ncases, pool=POOL)
    rep.outcome({'helper-baseline:text': sum(
        1 for v in base.values() if v[0] == 'text'),
        'helper-baseline:raised': sum(
        1 for v in base.values() if v[0] == 'raised')})


def replay(calls):
    base = H.fresh_child(baselines)
    seq = [(h, POOL.index(t), bool(wc)) for h, t, wc in calls]

    def alone(seq):
        return run_sequence(C.lib(), base, seq)
    return [{'sig': s, 'detail': d} for s, d in H.fresh_child(alone, seq)]
