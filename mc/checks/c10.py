# -*- coding: utf-8 -*-
"""
C10 - base64-VLQ codec is a bijection in canonical Source Map V3 form.

Exhaustive value enumeration (E8) against the independent codec R5.
"""
from __future__ import unicode_literals

import itertools

from mc.pool import pmap, ncpu
from mc.report import VioBag
from mc.refmodel import sourcemap as R5

NEEDS_TABLES = False


def groups(n):
    return len(R5.encode_int(n))


def sig(law, n):
    if isinstance(n, int):
        return 'C10|%s|groups=%d|%s' % (
            law, min(groups(n), 9), 'neg' if n < 0 else 'nonneg')
    return 'C10|%s' % law


def check_int(vlq, n, bag):
    try:
        e = vlq.encode_vlq(n)
    except Exception as ex:
        bag.add(sig('encode-raises-' + type(ex).__name__, n), {'int': n},
                repr(ex))
        return 0
    ok = 1
    ref = R5.encode_int(n)
    if e != ref:
        bag.add(sig('encode-not-canonical', n), {'int': n},
                'impl %r reference %r' % (e, ref))
        ok = 0
    try:
        d = vlq.decode_vlq(e)
        ds = vlq.decode_vlqs(e)
    except Exception as ex:
        bag.add(sig('decode-raises-' + type(ex).__name__, n), {'int': n},
                repr(ex))
        return 0
    if d != n or not isinstance(ds, (tuple, list)) or tuple(ds) != (n,):
        bag.add(sig('decode-encode-differs', n), {'int': n},
                'decode(encode(x)) = %r / %r' % (d, ds))
        ok = 0
    try:
        d2 = vlq.decode_vlq(ref)
    except Exception as ex:
        bag.add(sig('decode-canonical-raises-' + type(ex).__name__, n),
                {'int': n}, repr(ex))
        return 0
    if d2 != n:
        bag.add(sig('decode-of-canonical-differs', n), {'int': n},
                'decode(%r) = %r' % (ref, d2))
        ok = 0
    return ok


def boundary_values(kmax):
    vals = set([0, 1, -1, 2, -2, 15, -15, 16, -16, 17, -17, 31, 32, 33,
                511, 512, 513, -511, -512, -513, 1023, 1024, -1024])
    for k in range(0, kmax + 1):
        for d in (-1, 0, 1):
            v = 16 * (32 ** k) + d
            vals.add(v)
            vals.add(-v)
    for k in range(0, 5 * kmax + 6):
        for d in (-1, 0, 1):
            vals.add(2 ** k + d)
            vals.add(-(2 ** k + d))
    return sorted(vals, key=lambda v: (abs(v), v))


SMALL = [0, 1, -1, 15, 16, -16, 511, 512, -512, 16384, -16383]
TINY = [0, -1, 16]


def segments(values):
    for arity in (1, 4, 5):
        for t in itertools.product(values, repeat=arity):
            yield t


def run(tier, rep):
    from calmjs.parse import vlq
    rng = 2 ** 20 if tier == 'quick' else 2 ** 24
    kmax = 60 if tier == 'quick' else 120
    strlen = 3 if tier == 'quick' else 4
    nw = ncpu()

    # (1) the contiguous range, split in blocks
    blocks = []
    step = max(1, (2 * rng + 1) // (nw * 8))
    lo = -rng
    while lo <= rng:
        hi = min(rng, lo + step - 1)
        blocks.append((lo, hi))
        lo = hi + 1

    def work_range(items, idx):
        bag = VioBag()
        n = 0
        nontrivial = 0
        for lo, hi in items:
            for v in range(lo, hi + 1):
                n += 1
                check_int(vlq, v, bag)
                if v < 0 or v > 15:
                    nontrivial += 1
        return n, nontrivial, bag
    tot = 0
    nontriv = 0
    for n, nt, bag in pmap(work_range, blocks):
        tot += n
        nontriv += nt
        rep.bag.merge(bag)
    rep.space('int-range', lo=-rng, hi=rng, cases=tot)

    # (2) group boundaries up to hundreds of bits
    bv = boundary_values(kmax)
    bag = VioBag()
    for v in bv:
        check_int(vlq, v, bag)
    rep.bag.merge(bag)
    rep.space('boundaries', cases=len(bv), max_bits=max(
        v.bit_length() for v in bv))
    tot += len(bv)
    nontriv += len(bv)

    # (3) all lists of <= 3 values from SMALL+big
    pool = SMALL + [16 * 32 ** 12, -(16 * 32 ** 12 - 1)]
    lists = [l for k in range(0, 4) for l in itertools.product(pool, repeat=k)]

    def work_lists(items, idx):
        bag = VioBag()
        for l in items:
            l = list(l)
            try:
                e = vlq.encode_vlqs(l)
                d = list(vlq.decode_vlqs(e))
            except Exception as ex:
                bag.add('C10|list-raises-' + type(ex).__name__,
                        {'list': l}, repr(ex))
                continue
            ref = ''.join(R5.encode_int(v) for v in l)
            if e != ref:
                bag.add('C10|list-encode-not-canonical|len=%d' % len(l),
                        {'list': l}, 'impl %r reference %r' % (e, ref))
            if d != l:
                bag.add('C10|list-decode-encode-differs|len=%d' % len(l),
                        {'list': l}, 'got %r' % (d,))
            try:
                rd = R5.decode_ints(e)
            except Exception as ex:
                rd = repr(ex)
            if rd != l:
                bag.add('C10|list-independent-decoder-disagrees|len=%d'
                        % len(l), {'list': l}, 'reference read %r' % (rd,))
        return len(items), bag
    for n, bag in pmap(work_lists, lists):
        tot += n
        nontriv += n
        rep.bag.merge(bag)
    rep.space('lists', pool=pool, max_len=3, cases=len(lists))

    # (4) whole mappings structures
    segs = list(segments(TINY))
    lines1 = [[]] + [[s] for s in segs]
    structs = []
    # one line, <= 2 segments
    structs.append([[]])
    for s in segs:
        structs.append([[s]])
    for s, t in itertools.product(segs, repeat=2):
        structs.append([[s, t]])
    # two lines, <= 1 segment each; three lines with an empty middle
    for a, b in itertools.product(lines1, repeat=2):
        structs.append([a, b])
    for a in lines1[:40]:
        for b in lines1[:40]:
            structs.append([a, [], b])

    # every base64 digit in every position of a field: one value per field
    # position of a 1 / 4 / 5 field segment, alone, after and before another
    # segment, on the first and on a later line
    wide = sorted(set(list(range(-1056, 1057)) + [
        s * (32 ** k) * m + d for k in (2, 3, 6, 12) for m in (1, 16, 31)
        for d in (-1, 0, 1) for s in (1, -1)]), key=lambda v: (abs(v), v))
    if tier != 'quick':
        wide = sorted(set(wide + list(range(-40000, 40001))),
                      key=lambda v: (abs(v), v))
    nfield = 0
    for v in wide:
        for arity in (1, 4, 5):
            for pos in range(arity):
                seg = tuple(v if i == pos else 0 for i in range(arity))
                structs.append([[seg]])
                nfield += 1
                if abs(v) <= 1056:
                    structs.append([[(0,), seg, (1, 0, 0, 0)]])
                    structs.append([[], [seg, seg], []])
                    nfield += 2

    def norm(m):
        try:
            return [[tuple(s) for s in line] for line in m]
        except TypeError:
            # not a list of lists of sequences: an observation, not a
            # harness fault
            return ('malformed', repr(m))

    def work_maps(items, idx):
        bag = VioBag()
        for m in items:
            try:
                e = vlq.encode_mappings(m)
                d = vlq.decode_mappings(e)
            except Exception as ex:
                bag.add('C10|mappings-raises-' + type(ex).__name__,
                        {'mappings': m}, repr(ex))
                continue
            ref = R5.encode_mappings(m)
            if e != ref:
                bag.add('C10|mappings-encode-not-canonical',
                        {'mappings': m}, 'impl %r reference %r' % (e, ref))
            if norm(d) != norm(m):
                bag.add('C10|mappings-decode-encode-differs',
                        {'mappings': m}, 'got %r' % (d,))
            try:
                rd = R5.decode_mappings_relative(e)
            except Exception as ex:
                rd = repr(ex)
            if rd != norm(m):
                bag.add('C10|mappings-independent-decoder-disagrees',
                        {'mappings': m}, 'encoded %r read as %r' % (e, rd))
        return len(items), bag
    for n, bag in pmap(work_maps, structs):
        tot += n
        nontriv += n
        rep.bag.merge(bag)
    rep.space('mappings', values=TINY, cases=len(structs),
              one_field_family=nfield, field_values=len(wide))

    # (5) every canonical VLQ string of <= strlen characters
    firsts = list(R5.ALPHABET)

    def work_strings(items, idx):
        bag = VioBag()
        n = canon = 0
        for first in items:
            for k in range(0, strlen):
                for rest in itertools.product(R5.ALPHABET, repeat=k):
                    s = first + ''.join(rest)
                    n += 1
                    if not R5.is_canonical(s):
                        continue
                    canon += 1
                    vals = R5.decode_ints(s)
                    try:
                        d = list(vlq.decode_vlqs(s))
                        e = vlq.encode_vlqs(d)
                    except Exception as ex:
                        bag.add('C10|string-raises-' + type(ex).__name__,
                                {'vlq': s}, repr(ex))
                        continue
                    if d != vals:
                        bag.add('C10|string-decode-disagrees|len=%d' % len(s),
                                {'vlq': s}, 'impl %r reference %r' % (d, vals))
                    if e != s:
                        bag.add('C10|string-encode-decode-differs|len=%d'
                                % len(s), {'vlq': s}, 'got %r' % (e,))
        return n, canon, bag
    ns = nc = 0
    for n, c, bag in pmap(work_strings, firsts):
        ns += n
        nc += c
        rep.bag.merge(bag)
    rep.space('vlq-strings', max_len=strlen, strings=ns, canonical=nc)
    tot += ns
    nontriv += nc

    # (6) mappings strings: every pair of canonical VLQ strings of <= 2
    # characters joined by ',' or ';', and each alone, as 1-field segments
    canon2 = [a + b for a in [''] + list(R5.ALPHABET) for b in R5.ALPHABET
              if R5.is_canonical(a + b)]
    mstrings = list(canon2)
    short = [c for c in canon2 if len(c) == 1] + [
        c for c in canon2 if len(c) == 2 and c[1] in 'BC/' ]
    for a in short:
        for b in short:
            mstrings.append(a + ',' + b)
            mstrings.append(a + ';' + b)

    def work_mstrings(items, idx):
        bag = VioBag()
        for ms in items:
            try:
                ref = R5.decode_mappings_relative(ms)
            except Exception as ex:
                bag.add('C10|reference-decoder-raises', {'mstring': ms},
                        repr(ex))
                continue
            try:
                d = vlq.decode_mappings(ms)
                e = vlq.encode_mappings(d)
            except Exception as ex:
                bag.add('C10|mstring-raises-' + type(ex).__name__,
                        {'mstring': ms}, repr(ex))
                continue
            if norm(d) != ref:
                bag.add('C10|mstring-decode-disagrees', {'mstring': ms},
                        'impl %r reference %r' % (d, ref))
            if e != ms:
                bag.add('C10|mstring-encode-decode-differs', {'mstring': ms},
                        'got %r' % (e,))
        return len(items), bag
    for n, bag in pmap(work_mstrings, mstrings):
        tot += n
        nontriv += n
        rep.bag.merge(bag)
    rep.space('mappings-strings', cases=len(mstrings))

    rep.cov['evaluations'] = tot
    rep.cov['distinct_nontrivial'] = nontriv
    rep.cov['states'] = tot
    rep.cov['transitions'] = tot
    rep.cov['traces_validated_against_impl'] = tot
    rep.cov['rule'] = (
        'every integer of the range, every boundary value, every list, every '
        'mappings structure and every string is enumerated once (plain '
        'products, no sampling); non-trivial = needs a sign bit or more than '
        'one 5-bit group, any list / structure, any canonical string')
    rep.cov['bounds'] = {'range': rng, 'boundary_k': kmax,
                         'string_len': strlen}
    rep.sample([{'int': v, 'vlq': R5.encode_int(v)} for v in
                (0, -1, 15, 16, -16, 511, 512, 16 * 32 ** 3, -(2 ** 64))])
    rep.sample([{'mappings': structs[len(structs) // 3]},
                {'list': list(lists[len(lists) // 2])}], limit=14)
    rep.assumptions += [
        'reference codec mc/refmodel/sourcemap.py written from the Source '
        'Map V3 text is correct',
        'integers beyond the enumerated range are represented by the '
        'power-of-32 / power-of-2 boundary family only',
    ]


def replay(w):
    from calmjs.parse import vlq
    bag = VioBag()
    if 'int' in w:
        check_int(vlq, w['int'], bag)
    elif 'list' in w:
        l = list(w['list'])
        if list(vlq.decode_vlqs(vlq.encode_vlqs(l))) != l or \
                vlq.encode_vlqs(l) != ''.join(R5.encode_int(v) for v in l):
            bag.add('C10|list', w)
    elif 'mappings' in w:
        m = w['mappings']
        e = vlq.encode_mappings(m)
        if e != R5.encode_mappings(m) or [
                [tuple(s) for s in l] for l in vlq.decode_mappings(e)] != [
                [tuple(s) for s in l] for l in m]:
            bag.add('C10|mappings', w)
    elif 'mstring' in w:
        ms = w['mstring']
        d = vlq.decode_mappings(ms)
        if [[tuple(s) for s in l] for l in d] != \
                R5.decode_mappings_relative(ms) or \
                vlq.encode_mappings(d) != ms:
            bag.add('C10|mstring', w)
    elif 'vlq' in w:
        s = w['vlq']
        d = list(vlq.decode_vlqs(s))
        if d != R5.decode_ints(s) or vlq.encode_vlqs(d) != s:
            bag.add('C10|string', w)
    return [{'sig': s, 'detail': v[2]} for s, v in bag.d.items()]
