# -*- coding: utf-8 -*-
"""
C18 - stream read/write helpers: same output, valid map link, no leaked
streams.

Explorer E6 (fault enumeration).  A *scenario* fixes the helper (io.read /
io.write), the stream arrangement, the stream names, the program(s) and the
printer.  Every stream is an instrumented double; the collaborators (parser,
unparser generator, json serialisation inside calmjs.parse.sourcemap) are
wrapped.  Each instrumented call is a *site* (op, role, ordinal).  The
scenario is first run fault free (twice - the two site logs must agree), then
once per (site, exception kind) with that site armed (quick), and - thorough -
once more per site that is still reached *after* the first fault fired
(ordered pairs; all other ordered pairs behave exactly like their first
member because the second site is never reached - they are counted as
subsumed, not executed).

Judged (only what the property states):
  fault free   output text == printer text + sourceMappingURL comment; the URL
               resolves, relative to the output name, to the map stream name,
               or is an RFC 2397 base64 data URL decoding to the map; the map
               equals what sourcemap.write + verify_write_sourcemap_args +
               encode_sourcemap / write_sourcemap give; read() sets sourcepath
  every run    a stream obtained from a factory is closed exactly once,
               a stream passed in open is never closed, the injected
               exception object reaches the caller (ECMASyntaxError: same
               type, message re-labelled with the stream name)
Faults injected into close() itself are outside the property's quantifier
(read / parse / unparse / write); such runs are executed and only judged for
"passed-in never closed" and "not closed twice".
"""
from __future__ import unicode_literals

import base64
import collections
import io as pyio
import json
import posixpath
import re

from mc.pool import pmap
from mc.report import VioBag

NEEDS_TABLES = True

# --------------------------------------------------------------------------
# the finite space
# --------------------------------------------------------------------------
PROGRAMS = collections.OrderedDict([
    ('p-var', 'var a = 1;'),
    ('p-func', 'function f(x) {\n  return x + 1;\n}\nf(2);\n'),
    ('p-nonascii', 'var s = "\u00e9\u20ac\\n", t = [1, 2];'),
    ('p-wide', 'function f(\u4e2d\u6587, a\u00fc, bb\u00e9\u00e8, \u03c0) {\n'
               '  var \u5909\u6570x = \u4e2d\u6587 + a\u00fc;\n'
               '  return \u5909\u6570x + bb\u00e9\u00e8 + \u03c0 + "\u00ff?>~";\n}\n'),
    ('p-empty', ''),
    ('p-lines', 'var a = {\n  b: 1,\n  c: "x"\n};\nif (a) {\n  a.b++;\n}\n'),
    ('e-parse', 'var = ;'),
    ('e-eof', 'function ('),
    ('e-regex', 'var a = /x'),
])
SECOND = 'b = 2;'          # the second node of a node list
GOOD_QUICK = ['p-var', 'p-func', 'p-nonascii', 'p-wide']
GOOD_THOROUGH = GOOD_QUICK + ['p-empty', 'p-lines']
BAD = ['e-parse', 'e-eof', 'e-regex']

NAMES = collections.OrderedDict([
    # style: (input/source 1, source 2, output, map)
    ('abs-same-dir', ('/srv/proj/src/a.js', '/srv/proj/src/b.js',
                      '/srv/proj/build/out.js', '/srv/proj/build/out.js.map')),
    ('abs-other-dir', ('/srv/proj/src/a.js', '/srv/proj/lib/x/b.js',
                       '/srv/proj/build/js/out.js',
                       '/srv/proj/maps/out.js.map')),
    # directories whose names are string prefixes of one another
    ('abs-prefix-dirs', ('/srv/proj/src/a.js', '/srv/proj/src-gen/b.js',
                         '/srv/proj/dist/out.js',
                         '/srv/proj/dist-maps/out.js.map')),
    ('abs-prefix-dirs-rev', ('/srv/proj/src-gen/a.js', '/srv/proj/src/b.js',
                             '/srv/proj/dist.maps/out.js',
                             '/srv/proj/dist/out.js.map')),
    ('rel-wide', ('src/\u00e9t\u00e9/\u4e2d.js', 'src/b\u00fc?.js',
                  'build/s\u00f8~.js', 'build/s\u00f8~.js.map')),
    ('rel-bare', ('a.js', 'b.js', 'out.js', 'out.js.map')),
    ('rel-subdir', ('src/a.js', 'src/b.js', 'build/out.js',
                    'build/out.js.map')),
])
KINDS = ('exc', 'base')


def scenarios(tier):
    out = []
    good = GOOD_QUICK if tier == 'quick' else GOOD_THOROUGH
    for stream in ('factory', 'open'):
        for names in NAMES:
            for prog in good + BAD:
                for comments in (False, True):
                    out.append(collections.OrderedDict([
                        ('api', 'read'), ('stream', stream), ('names', names),
                        ('program', prog), ('comments', comments)]))
    arrangements = []
    for o in ('factory', 'open'):
        arrangements.append(('none', o, None))
        arrangements.append(('same', o, None))
        for m in ('factory', 'open'):
            arrangements.append(('separate', o, m))
    nodes = ['one', 'list-of-2'] if tier == 'quick' else [
        'one', 'list-of-2', 'list-with-junk']
    # the non-default flag combinations are judged fault-free only (see
    # explore_scenario), so they are cheap enough for the quick tier too
    norms = [(True, True), (False, True), (True, False), (False, False)]
    for mp, o, m in arrangements:
        for names in NAMES:
            for nd in nodes:
                for prog in good:
                    for printer in ('pretty', 'minify-obf'):
                        for npaths, nmaps in norms:
                            out.append(collections.OrderedDict([
                                ('api', 'write'), ('map', mp), ('out', o),
                                ('mapk', m), ('names', names), ('nodes', nd),
                                ('program', prog), ('printer', printer),
                                ('norm_paths', npaths),
                                ('norm_maps', nmaps)]))
    return out


# --------------------------------------------------------------------------
# instrumentation
# --------------------------------------------------------------------------
class Marker(Exception):
    """injected failure"""


class BaseMarker(BaseException):
    """injected failure that is not an Exception (cf. KeyboardInterrupt)"""


class Ctl(object):
    """counts instrumented calls, raises at the armed sites"""

    def __init__(self, armed, syntax_error):
        # armed: {(op, who, n): kind}
        self.armed = dict(armed)
        self.counts = collections.Counter()
        self.log = []
        self.fired = []       # [(site, kind, exception object)]
        self.open_at_fire = []
        self.streams = []     # every double, in creation order
        self.syntax_error = syntax_error

    def hit(self, op, who):
        self.counts[(op, who)] += 1
        site = (op, who, self.counts[(op, who)])
        self.log.append(site)
        kind = self.armed.get(site)
        if kind is None:
            return
        text = 'injected at %s@%s#%d' % site
        if kind == 'exc':
            e = Marker(text)
        elif kind == 'base':
            e = BaseMarker(text)
        elif kind == 'syntax':
            e = self.syntax_error(text)
        else:
            raise AssertionError(kind)
        self.open_at_fire.append(sum(
            1 for s in self.streams
            if s.origin == 'factory' and s.closes == 0))
        self.fired.append((site, kind, e))
        raise e


class Double(pyio.StringIO):
    """in-memory text stream with a name; close() is recorded, not done"""

    def __init__(self, ctl, who, name, origin, text=''):
        pyio.StringIO.__init__(self, text)
        self.ctl = ctl
        self.who = who
        self.name = name
        self.origin = origin
        self.closes = 0
        ctl.streams.append(self)

    def read(self, *a):
        self.ctl.hit('read', self.who)
        return pyio.StringIO.read(self, *a)

    def write(self, s):
        self.ctl.hit('write', self.who)
        return pyio.StringIO.write(self, s)

    def writelines(self, lines):
        self.ctl.hit('writelines', self.who)
        for l in list(lines):
            pyio.StringIO.write(self, l)

    def close(self):
        self.closes += 1
        self.ctl.hit('close', self.who)


class Plain(pyio.StringIO):
    """un-instrumented named stream for the lower-level reference calls"""

    def __init__(self, name):
        pyio.StringIO.__init__(self)
        self.name = name


class JsonProxy(object):

    def __init__(self, ctl):
        self._ctl = ctl

    def dumps(self, *a, **kw):
        self._ctl.hit('json.dumps', '-')
        return json.dumps(*a, **kw)

    def dump(self, *a, **kw):
        self._ctl.hit('json.dump', '-')
        return json.dump(*a, **kw)

    def __getattr__(self, name):
        return getattr(json, name)


class Mods(object):
    """the modules under test (imported after boot)"""

    def __init__(self):
        from calmjs.parse import io, sourcemap
        from calmjs.parse.parsers import es5 as parser_es5
        from calmjs.parse.unparsers import es5 as unparser_es5
        from calmjs.parse.exceptions import ECMASyntaxError
        from calmjs.parse.asttypes import Node
        self.io = io
        self.sourcemap = sourcemap
        self.parse = parser_es5.parse
        self.unparser_es5 = unparser_es5
        self.ECMASyntaxError = ECMASyntaxError
        self.Node = Node

    def printer(self, which):
        if which == 'pretty':
            return self.unparser_es5.pretty_printer()
        return self.unparser_es5.minify_printer(
            obfuscate=True, obfuscate_globals=True)

    def nodes(self, sc):
        src1, src2 = NAMES[sc['names']][:2]
        n1 = self.parse(PROGRAMS[sc['program']])
        n1.sourcepath = src1
        if sc['nodes'] == 'one':
            return n1, [n1]
        n2 = self.parse(SECOND)
        n2.sourcepath = src2
        if sc['nodes'] == 'list-of-2':
            return [n1, n2], [n1, n2]
        return [n1, 'junk', None, n2], [n1, n2]


class Run(object):
    pass


def execute(mods, sc, faults):
    """run one (scenario, fault set); never judges"""
    armed = dict(((op, who, n), kind) for op, who, n, kind in faults)
    ctl = Ctl(armed, mods.ECMASyntaxError)
    r = Run()
    r.ctl = ctl
    r.exc = None
    r.result = None
    names = NAMES[sc['names']]

    def factory(who, name, text=''):
        def f():
            ctl.hit('open', who)
            return Double(ctl, who, name, 'factory', text)
        return f

    if sc['api'] == 'read':
        text = PROGRAMS[sc['program']]
        if sc['stream'] == 'factory':
            arg = factory('in', names[0], text)
        else:
            arg = Double(ctl, 'in', names[0], 'passed', text)

        def parser(t):
            ctl.hit('parse', '-')
            return mods.parse(t, with_comments=sc['comments'])
        try:
            r.result = mods.io.read(parser, arg)
        except (Exception, BaseMarker) as e:
            r.exc = e
        return r

    real = mods.printer(sc['printer'])

    def unparser(node):
        ctl.hit('unparse-call', '-')
        it = iter(real(node))

        def gen():
            while True:
                ctl.hit('unparse-step', '-')
                try:
                    frag = next(it)
                except StopIteration:
                    return
                yield frag
        return gen()

    nodes_arg, _ = mods.nodes(sc)
    if sc['out'] == 'factory':
        out_arg = factory('out', names[2])
    else:
        out_arg = Double(ctl, 'out', names[2], 'passed')
    if sc['map'] == 'none':
        args = (unparser, nodes_arg, out_arg)
    elif sc['map'] == 'same':
        args = (unparser, nodes_arg, out_arg, out_arg)
    else:
        if sc['mapk'] == 'factory':
            map_arg = factory('map', names[3])
        else:
            map_arg = Double(ctl, 'map', names[3], 'passed')
        args = (unparser, nodes_arg, out_arg, map_arg)
    sm = mods.sourcemap
    old = sm.json
    sm.json = JsonProxy(ctl)
    try:
        try:
            r.result = mods.io.write(
                *args, sourcemap_normalize_mappings=sc['norm_maps'],
                sourcemap_normalize_paths=sc['norm_paths'])
        except (Exception, BaseMarker) as e:
            r.exc = e
    finally:
        sm.json = old
    return r


def reference(mods, sc):
    """what the printer and the lower-level API give for the scenario"""
    ref = {}
    names = NAMES[sc['names']]
    if sc['api'] == 'read':
        try:
            mods.parse(PROGRAMS[sc['program']], with_comments=sc['comments'])
            ref['error'] = None
        except mods.ECMASyntaxError as e:
            ref['error'] = e
        return ref
    sm = mods.sourcemap
    _, nodes = mods.nodes(sc)
    printer = mods.printer(sc['printer'])
    frags = [f for n in nodes for f in printer(n)]
    ref['text'] = ''.join(f.text for f in frags)
    if sc['map'] == 'none':
        return ref
    o = Plain(names[2])
    mappings, sources, nms = sm.write(
        iter(frags), o, normalize=sc['norm_maps'])
    if o.getvalue() != ref['text']:
        raise AssertionError('sourcemap.write text != joined fragment text')
    m = o if sc['map'] == 'same' else Plain(names[3])
    args, url = sm.verify_write_sourcemap_args(
        mappings, sources, nms, o, m, sc['norm_paths'])
    ref['map'] = sm.encode_sourcemap(*args)
    # the same through write_sourcemap, on fresh streams
    o2 = Plain(names[2])
    m2 = o2 if sc['map'] == 'same' else Plain(names[3])
    sm.write_sourcemap(mappings, sources, nms, o2, m2,
                       normalize_paths=sc['norm_paths'])
    if sc['map'] == 'separate':
        ref['map_text'] = m2.getvalue()
        if json.loads(ref['map_text']) != ref['map']:
            raise AssertionError(
                'write_sourcemap and encode_sourcemap disagree')
    return ref


# --------------------------------------------------------------------------
# judging
# --------------------------------------------------------------------------
URL_RE = re.compile(r'\A\s*//[#@]\s*sourceMappingURL=(\S+)\s*\Z')


def arrangement(sc):
    if sc['api'] == 'read':
        return 'read|stream=%s' % sc['stream']
    return 'write|map=%s|out=%s|mapk=%s' % (
        sc['map'], sc['out'], sc['mapk'] or '-')


def fault_class(fired):
    if not fired:
        return 'none'
    out = []
    for (op, who, n), kind, e in fired:
        s = op if who == '-' else '%s@%s' % (op, who)
        if kind != 'exc':
            s += '/' + kind
        out.append(s)
    return '+'.join(out)


def decode_data_url(url, strict):
    """RFC 2397: data:[<mediatype>][;base64],<data>.  strict: `;base64` must
    be the token right before the comma (as the RFC, the WHATWG fetch
    standard, urllib and node require); lenient: anywhere among the
    parameters.  Returns (mediatype, text) or raises ValueError."""
    if not url.startswith('data:') or ',' not in url:
        raise ValueError('not a data URL')
    header, payload = url[5:].split(',', 1)
    parts = header.split(';')
    params = parts[1:]
    if strict:
        if not params or params[-1] != 'base64':
            raise ValueError(
                '";base64" is not the last token before the comma')
    elif 'base64' not in params:
        raise ValueError('no ";base64" token')
    charset = 'utf-8'
    for p in params:
        if p.startswith('charset='):
            charset = p[len('charset='):]
    try:
        raw = base64.b64decode(payload.encode('ascii'), validate=True)
        return parts[0], raw.decode(charset)
    except Exception as e:
        raise ValueError('payload not decodable: %r' % (e,))


def judge(mods, sc, faults, r, ref):
    """-> (list of (signature, detail), outcome label)"""
    vio = []
    arr = arrangement(sc)
    ctl = r.ctl
    fc = fault_class(ctl.fired)
    close_fault = any(site[0] == 'close' for site, k, e in ctl.fired)

    def add(clause, detail, extra='', content=False):
        # content clauses (fault-free text / link / map) do not depend on
        # who opened the streams: abstract the arrangement to the map mode
        a = arr
        if content and sc['api'] == 'write':
            a = 'write|map=%s' % sc['map']
        vio.append(('C18|%s|%s%s|after=%s' % (a, clause, extra, fc),
                    detail))

    # -- closing ---------------------------------------------------------
    for s in ctl.streams:
        if s.origin == 'passed':
            if s.closes:
                add('passed-in-stream-closed', '%s (%s) closed %d time(s)' % (
                    s.who, s.name, s.closes), '|role=%s' % s.who)
        elif s.closes > 1:
            add('factory-stream-closed-twice', '%s (%s) closed %d times' % (
                s.who, s.name, s.closes), '|role=%s' % s.who)
        elif s.closes == 0 and not close_fault:
            add('factory-stream-not-closed', '%s (%s) never closed' % (
                s.who, s.name), '|role=%s' % s.who)

    # -- propagation -----------------------------------------------------
    outcome = 'fault-free-ok'
    if ctl.fired:
        site, kind, first = ctl.fired[0]
        injected = [e for s_, k_, e in ctl.fired]
        if close_fault:
            outcome = 'close-fault(leak-not-judged)'
            if not any(r.exc is e for e in injected):
                add('exception-not-propagated',
                    'caller got %r' % (r.exc,))
        elif kind == 'syntax':
            outcome = 'relabelled'
            name = NAMES[sc['names']][0]
            if type(r.exc) is not type(first):
                add('syntax-error-type-changed', 'caller got %r' % (r.exc,))
            elif str(first) not in str(r.exc) or name not in str(r.exc):
                add('syntax-error-not-relabelled', 'message %r lacks the '
                    'original text or the stream name %r' % (
                        str(r.exc), name))
        else:
            outcome = 'propagated'
            if r.exc is None:
                add('exception-swallowed', 'injected %r, caller got a '
                    'normal return' % (first,))
            elif r.exc is not first:
                add('exception-replaced', 'injected %r, caller got %r' % (
                    first, r.exc))
        return vio, ('violation' if vio else outcome)

    # -- fault free ------------------------------------------------------
    if sc['api'] == 'read':
        name = NAMES[sc['names']][0]
        err = ref['error']
        if err is not None:
            outcome = 'relabelled'
            if type(r.exc) is not type(err):
                add('syntax-error-type-changed',
                    'parser raises %r, read raised %r' % (err, r.exc))
            elif str(err) not in str(r.exc) or name not in str(r.exc):
                add('syntax-error-not-relabelled', 'message %r lacks the '
                    'original text or the stream name %r' % (
                        str(r.exc), name))
        elif r.exc is not None:
            add('fault-free-raises', repr(r.exc))
        elif getattr(r.result, 'sourcepath', None) != name:
            add('sourcepath-not-stream-name', 'sourcepath %r, stream name '
                '%r' % (getattr(r.result, 'sourcepath', None), name))
        return vio, ('violation' if vio else outcome)

    if r.exc is not None:
        add('fault-free-raises', repr(r.exc))
        return vio, 'violation'
    outs = [s for s in ctl.streams if s.who == 'out']
    maps = [s for s in ctl.streams if s.who == 'map']
    if len(outs) != 1 or (sc['map'] == 'separate' and len(maps) != 1):
        add('stream-count', '%d output and %d map stream(s) were opened' % (
            len(outs), len(maps)))
        return vio, 'violation'
    text = outs[0].getvalue()
    nm = '|names=%s|norm_paths=%d' % (sc['names'], sc['norm_paths'])
    if not text.startswith(ref['text']):
        add('output-text-differs', 'printer gives %r, stream got %r' % (
            ref['text'], text), content=True)
        return vio, 'violation'
    rest = text[len(ref['text']):]
    if sc['map'] == 'none':
        if rest:
            add('unexpected-trailer', repr(rest), content=True)
        return vio, ('violation' if vio else outcome)
    m = URL_RE.match(rest)
    if not m:
        add('mapping-url-comment-malformed', 'after the printer text: %r'
            % rest[:200], content=True)
        return vio, 'violation'
    url = m.group(1)
    if sc['map'] == 'separate':
        out_name, map_name = NAMES[sc['names']][2:4]
        target = posixpath.normpath(
            posixpath.join(posixpath.dirname(out_name), url))
        if url.startswith('data:') or \
                target != posixpath.normpath(map_name):
            add('url-does-not-resolve-to-map', 'output %r map %r but '
                'sourceMappingURL=%s (resolves to %r)' % (
                    out_name, map_name, url, target), nm, content=True)
        mt = maps[0].getvalue()
        try:
            got = json.loads(mt)
        except ValueError:
            got = None
        if got != ref['map']:
            add('map-differs-from-lower-level-api', 'stream got %r, lower '
                'level gives %r' % (mt, ref['map_text']), content=True)
    else:
        try:
            mtype, body = decode_data_url(url, strict=True)
        except ValueError as e:
            add('inline-url-not-a-base64-data-url', '%s: %s' % (
                e, url[:80]), content=True)
            try:
                mtype, body = decode_data_url(url, strict=False)
            except ValueError as e2:
                mtype = body = None
                add('inline-url-undecodable', '%s: %s' % (e2, url[:80]),
                    content=True)
        if body is not None:
            try:
                got = json.loads(body)
            except ValueError:
                got = None
            if got != ref['map']:
                add('inline-map-differs-from-lower-level-api',
                    'decoded %r, lower level gives %r' % (body, ref['map']),
                    content=True)
    return vio, ('violation' if vio else outcome)


def witness(sc, faults):
    return {'scenario': dict(sc), 'faults': [list(f) for f in faults]}


def explore(mods, sc, tier, bag, herr, stats):
    """all runs of one scenario"""
    try:
        ref = reference(mods, sc)
    except Exception as e:
        herr.append('reference computation failed for %r: %r' % (
            dict(sc), e))
        return

    def one(faults):
        r = execute(mods, sc, faults)
        vio, outcome = judge(mods, sc, faults, r, ref)
        for sig, detail in vio:
            bag.add(sig, witness(sc, faults), detail)
        stats['states'] += 1
        stats['judged'] += 1
        stats['out:' + outcome] += 1
        if faults:
            stats['transitions'] += 1
            if any(n for n in r.ctl.open_at_fire):
                stats['nontrivial'] += 1
        elif sc['api'] == 'write' and sc['map'] != 'none':
            stats['nontrivial'] += 1
        return r

    r0 = one(())
    if sc['api'] == 'write' and sc['map'] == 'same' and 'map' in ref:
        # which base64 digits the payload of this scenario needs (computed
        # from the lower-level API's map, not from the helper's output)
        pay = base64.b64encode(json.dumps(
            ref['map'], sort_keys=True, ensure_ascii=False).encode('utf-8'))
        for ch in set(pay.decode('ascii')):
            stats['b64:' + ch] += 1
    first = set(s for s, _ in judge(mods, sc, (), r0, ref)[0])
    again = execute(mods, sc, ())
    # a later call must leave the streams of an earlier call alone and must
    # itself behave like the first: the first run's stream doubles are
    # judged once more after the second run, and the second run is judged
    late = [(s, d) for s, d in judge(mods, sc, (), r0, ref)[0]
            if s not in first]
    late += [(s, d) for s, d in judge(mods, sc, (), again, ref)[0]
             if s not in first]
    for sig, detail in late:
        w = witness(sc, ())
        w['repeat'] = 2
        bag.add(sig + '|same-call-made-twice', w, detail)
    stats['repeated_fault_free_runs'] += 1
    if again.ctl.log != r0.ctl.log:
        if not late:
            herr.append('fault-free site log not reproducible for %r'
                        % dict(sc))
        return
    if sc['api'] == 'write' and not (sc['norm_paths'] and sc['norm_maps']):
        # the normalise flags only change the values handed to the lower
        # level; the call sequence is that of the default flags, whose
        # scenario carries the fault exploration
        stats['fault_free_only'] += 1
        return
    sites = list(r0.ctl.log)
    stats['sites'] += len(sites)
    singles = []
    for site in sites:
        kinds = list(KINDS)
        if site[0] == 'parse':
            kinds.append('syntax')
        for kind in kinds:
            singles.append(site + (kind,))
    npairs_static = len(singles) * (len(singles) - 1) // 2
    executed_pairs = 0
    for f1 in singles:
        r1 = one((f1,))
        if len(r1.ctl.fired) != 1:
            herr.append('armed site %r not reached in %r' % (f1, dict(sc)))
            continue
        if tier != 'thorough':
            continue
        # sites reached after the first fault fired
        idx = r1.ctl.log.index(f1[:3])
        for site in r1.ctl.log[idx + 1:]:
            for kind in KINDS:
                f2 = site + (kind,)
                r2 = one((f1, f2))
                executed_pairs += 1
                if len(r2.ctl.fired) != 2:
                    herr.append('second armed site %r not reached in %r'
                                % (f2, dict(sc)))
    stats['singles'] += len(singles)
    stats['pairs_executed'] += executed_pairs
    if tier == 'thorough':
        stats['pairs_subsumed'] += max(0, npairs_static - executed_pairs)


def quiet_logging():
    # the library warns (logging) about programs without a source path,
    # e.g. the empty program; keep stderr for harness errors
    import logging
    logging.getLogger('calmjs.parse').setLevel(logging.CRITICAL)


def run(tier, rep):
    quiet_logging()
    scs = scenarios(tier)

    def work(items, idx):
        mods = Mods()
        bag = VioBag()
        herr = []
        stats = collections.Counter()
        for sc in items:
            explore(mods, sc, tier, bag, herr, stats)
            if len(herr) > 20:
                break
        return bag, herr, dict(stats)

    tot = collections.Counter()
    for bag, herr, stats in pmap(work, scs):
        rep.bag.merge(bag)
        rep.harness_errors.extend(herr)
        tot.update(stats)
    rep.cov['states'] = tot['states']
    rep.cov['transitions'] = tot['transitions']
    rep.cov['traces_validated_against_impl'] = tot['judged']
    rep.cov['evaluations'] = tot['states']
    rep.cov['distinct_nontrivial'] = tot['nontrivial']
    rep.outcome(dict((k[4:], v) for k, v in tot.items()
                     if k.startswith('out:')))
    digits = sorted(k[4:] for k in tot if k.startswith('b64:'))
    rep.cov['inline_payload_base64_digits_seen'] = ''.join(digits)
    if not set('+/') <= set(digits):
        rep.harness_errors.append(
            'no inline payload of the space contains the base64 digits 62 '
            'and 63 (%r): the data URL alphabet is not exercised'
            % ''.join(digits))
    nread = sum(1 for s in scs if s['api'] == 'read')
    rep.space('scenarios', read=nread, write=len(scs) - nread,
              total=len(scs))
    rep.space('faults', call_sites=tot['sites'],
              single_faults=tot['singles'],
              pairs_executed=tot['pairs_executed'],
              pairs_subsumed_by_their_first_member=tot['pairs_subsumed'],
              kinds=list(KINDS) + ['syntax (parse sites only)'])
    rep.cov['rule'] = (
        'scenario = full product of helper x arrangement x names x nodes x '
        'program x printer (x normalise flags, thorough - non-default flags '
        'get the fault-free oracle only); per scenario one '
        'fault-free run, one run per (call site of the fault-free run, '
        'exception kind), thorough: one more per site still reached after '
        'the first fault; state = (scenario, fault set); non-trivial = a '
        'fault fired while a factory-obtained stream was open, or a '
        'fault-free write with a source map')
    rep.cov['bounds'] = {
        'programs': [k for k in PROGRAMS
                     if k in (GOOD_QUICK if tier == 'quick'
                              else GOOD_THOROUGH) or k in BAD],
        'names': list(NAMES), 'fault_depth': 1 if tier == 'quick' else 2,
        'sites': 'open, read, write, writelines, close, parse, '
                 'unparse-call, unparse-step, json.dumps',
    }
    rep.sample([witness(scs[i], ()) for i in
                range(0, len(scs), max(1, len(scs) // 6))][:6])
    rep.assumptions += [
        'failures of close() itself are outside the quantifier of the '
        'property; such runs are executed but a stream left open after '
        'another stream\'s close() raised is not reported',
        'a relative sourceMappingURL is resolved against the directory of '
        'the output stream name with POSIX path rules',
        'an inline URL is judged by RFC 2397: ";base64" directly before '
        'the comma',
        'json serialisation is reached through the name `json` of '
        'calmjs.parse.sourcemap (patched with a proxy during a run)',
    ]


def replay(w):
    quiet_logging()
    mods = Mods()
    sc = w['scenario']
    faults = tuple(tuple(f) for f in w['faults'])
    ref = reference(mods, sc)
    r = execute(mods, sc, faults)
    vio, outcome = judge(mods, sc, faults, r, ref)
    if w.get('repeat'):
        first = set(s for s, _ in vio)
        again = execute(mods, sc, faults)
        late = judge(mods, sc, faults, r, ref)[0] + judge(
            mods, sc, faults, again, ref)[0]
        vio = vio + [(s + '|same-call-made-twice', d) for s, d in late
                     if s not in first]
    return [{'sig': s, 'detail': d} for s, d in vio]
