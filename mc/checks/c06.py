# -*- coding: utf-8 -*-
"""
C06 - the token stream is a faithful, gap-free, correctly located
segmentation.

Every string of the bounded character-level spaces and every short sequence
of multi-character lexemes is run through Lexer(yield_comments=True); for the
inputs that lex without error the intrinsic invariants are checked, with R1's
definitions of white space / line terminators / line counting as reference.
"""
from __future__ import unicode_literals

import collections
import itertools

from mc.pool import pmap
from mc.refmodel import lexer as R1
from mc.report import VioBag
from mc.space import chars as CH

PUNCTS = set(R1.PUNCTUATORS)
KEYWORD_TYPES = None


def lex_all(text):
    from calmjs.parse.lexers.es5 import Lexer
    from calmjs.parse.exceptions import ECMASyntaxError
    lx = Lexer(yield_comments=True)
    lx.input(text)
    toks = []
    try:
        for t in lx:
            toks.append((t.type, t.value, t.lexpos, t.lineno,
                         getattr(t, 'colno', None)))
            if len(toks) > 4 * len(text) + 16:
                return None, 'runaway'
    except ECMASyntaxError:
        return None, 'syntax-error'
    except Exception as e:
        return None, 'crash:' + type(e).__name__   # C12's business
    return toks, 'ok'


def gap_ok(gap):
    """only ES5 white space and line terminators"""
    for c in gap:
        if c in R1.LT_CHARS:
            continue
        try:
            if R1.is_ws(c):
                continue
        except R1.Abstain:
            continue
        return False
    return True


def gap_ok_none(value):
    """no ES5 white space / line terminator inside"""
    for c in value:
        if c in R1.LT_CHARS:
            return False
        try:
            if R1.is_ws(c):
                return False
        except R1.Abstain:
            pass
    return True


def tkind(ttype):
    return ttype


def check_tokens(text, toks, bag, w):
    li = R1.LineIndex(text)
    rlex = R1.Lexer(text)
    pos = 0
    prev = None
    real = [t for t in toks if t[0] != 'AUTOSEMI']
    for i, (ttype, value, lexpos, lineno, colno) in enumerate(real):
        # ordered, non-overlapping
        if lexpos < pos:
            bag.add('C06|overlap-or-disorder|%s' % ttype, w,
                    'token %r at %d begins before %d' % (value, lexpos, pos))
            return
        # text exact
        if text[lexpos:lexpos + len(value)] != value:
            bag.add('C06|value-is-not-the-substring|%s' % ttype, w,
                    'token %r at %d, input has %r' % (
                        value, lexpos, text[lexpos:lexpos + len(value)]))
            return
        # identifier / keyword / punctuator / number tokens consist of
        # token characters only (7.5-7.8): a "token" holding white space or
        # a line terminator is not a faithful segmentation
        if ttype not in ('STRING', 'REGEX', 'LINE_COMMENT', 'BLOCK_COMMENT',
                         'LINE_TERMINATOR') and not gap_ok_none(value):
            bag.add('C06|token-contains-layout|%s' % (
                'word' if value[:1].isalpha() or value[:1] in '$_'
                else ttype), w, 'token %r typed %s' % (value, ttype))
            return
        # gap
        gap = text[pos:lexpos]
        if not gap_ok(gap):
            bag.add('C06|gap-holds-non-layout|before=%s' % ttype, w,
                    'gap %r before token %r at %d' % (gap, value, lexpos))
            return
        # punctuators longest-first
        end = lexpos + len(value)
        if value in PUNCTS and ttype not in ('REGEX', 'STRING'):
            for extra in (1, 2, 3):
                longer = text[lexpos:end + extra]
                if len(longer) == len(value) + extra and longer in PUNCTS:
                    bag.add('C06|punctuator-not-longest|%s' % ttype, w,
                            '%r lexed although %r follows' % (value, longer))
                    break
        # keyword iff exact match
        if ttype not in ('STRING', 'REGEX', 'NUMBER', 'LINE_COMMENT',
                         'BLOCK_COMMENT', 'LINE_TERMINATOR') and \
                value and (value[0].isalpha() or value[0] in '$_' or
                           ord(value[0]) > 127):
            if value in R1.RESERVED:
                if ttype != value.upper():
                    bag.add('C06|reserved-word-not-typed-as-keyword|%s'
                            % ttype, w, 'token %r typed %s' % (value, ttype))
            elif ttype not in ('ID',) and not (
                    ttype == 'GETPROP' and value == 'get') and not (
                    ttype == 'SETPROP' and value == 'set'):
                bag.add('C06|identifier-typed-as-keyword|%s' % ttype, w,
                        'token %r typed %s' % (value, ttype))
        # a numeric literal / an identifier name is one token: it extends
        # as far as the ES5 lexical grammar reads it from the same offset
        ref_end = None
        try:
            if ttype == 'NUMBER':
                ref_end = rlex.number(lexpos).end
            elif ttype not in ('STRING', 'REGEX', 'LINE_COMMENT',
                               'BLOCK_COMMENT', 'LINE_TERMINATOR') and \
                    value[:1] != '\\' and (
                        value[:1].isalpha() or value[:1] in '$_' or
                        ord(value[:1] or ' ') > 127):
                ref_end = rlex.identifier(lexpos).end
        except (R1.LexError, R1.Abstain, IndexError):
            ref_end = None
        if ref_end is not None and ref_end != end:
            bag.add('C06|literal-or-name-split|%s' % (
                'NUMBER' if ttype == 'NUMBER' else 'word'), w,
                'token %r at %d, the ES5 lexical grammar reads %r there' % (
                    value, lexpos, text[lexpos:ref_end]))
            return
        # line / column
        el, ec = li.linecol(lexpos)
        if (lineno, colno) != (el, ec):
            before = text[:lexpos]
            cls = 'LSPS' if ('\u2028' in before or '\u2029' in before) \
                else ('CR' if '\r' in before else 'LF')
            bag.add('C06|line-column-wrong|%s|terminators=%s' % (
                'comment' if 'COMMENT' in ttype else 'token', cls), w,
                'token %r at offset %d reported %s:%s, counting gives %d:%d'
                % (value, lexpos, lineno, colno, el, ec))
            return
        pos = end
        prev = ttype
    if not gap_ok(text[pos:]):
        bag.add('C06|gap-holds-non-layout|before=EOF', w,
                'trailing %r' % text[pos:])


class Acc(object):
    def __init__(self):
        self.bag = VioBag()
        self.out = collections.Counter()
        self.cases = 0
        self.nontrivial = 0
        self.tokens = 0
        self.types = collections.Counter()

    def merge(self, o):
        self.bag.merge(o.bag)
        self.out.update(o.out)
        self.cases += o.cases
        self.nontrivial += o.nontrivial
        self.tokens += o.tokens
        self.types.update(o.types)


def check_text(acc, text):
    acc.cases += 1
    toks, status = lex_all(text)
    acc.out[status] += 1
    if toks is None:
        return
    if toks:
        acc.nontrivial += 1
    acc.tokens += len(toks)
    for t in toks:
        acc.types[t[0]] += 1
    check_tokens(text, toks, acc.bag, {'text': text})


def run_texts(texts):
    def work(chunk, idx):
        acc = Acc()
        for t in chunk:
            check_text(acc, t)
        return acc
    total = Acc()
    for a in pmap(work, texts):
        total.merge(a)
    return total


def lexeme_sequences(n, seps):
    out = []
    for k in range(1, n + 1):
        for seq in itertools.product(CH.LEXEMES, repeat=k):
            for sep in seps:
                out.append(sep.join(seq))
    return out


def run(tier, rep):
    total = Acc()
    sp, tasks = CH.string_tasks(tier, 'lex')

    def work_tasks(chunk, idx):
        acc = Acc()
        for task in chunk:
            for t in CH.strings_of_task(sp, task):
                check_text(acc, t)
        return acc
    nstr = 0
    for a in pmap(work_tasks, tasks):
        nstr += a.cases
        total.merge(a)
    strs = list(CH.strings_of_task(sp, tasks[len(tasks) // 2]))[:5] or ['a']
    rep.space('sigma-char', strings=nstr,
              spaces=[(n, len(a), k) for n, a, k in sp])
    if tier == 'quick':
        seqs = lexeme_sequences(2, ['', ' ', '\n']) 
        small = CH.LEXEMES[:34]
        for seq in itertools.product(small, repeat=3):
            seqs.append(''.join(seq))
    else:
        seqs = lexeme_sequences(3, ['', ' '])
    seqs = sorted(set(seqs))
    total.merge(run_texts(seqs))
    rep.space('lexeme-sequences', lexemes=len(CH.LEXEMES), texts=len(seqs))
    from mc.space.corpus import harvest
    corpus = harvest()
    total.merge(run_texts(corpus))
    rep.space('S0', texts=len(corpus))
    ws = [chr(c) for c in (0x9, 0xb, 0xc, 0x20, 0xa0, 0x1680, 0x2000, 0x2001,
                           0x2002, 0x2003, 0x2004, 0x2005, 0x2006, 0x2007,
                           0x2008, 0x2009, 0x200a, 0x202f, 0x205f, 0x3000,
                           0xfeff, 0xa, 0xd, 0x2028, 0x2029)]
    wtexts0 = []
    for a in ('a', 'if', 'var', 'in', '1', ')', '\xe9', 'x1'):
        for b in ('a', 'in', 'x', '=', '1', '(', '\xe9'):
            for c in ws:
                wtexts0 += [a + c + b, a + c + c + b, c + a + c]
    total.merge(run_texts(sorted(set(wtexts0))))
    rep.space('white-space-variety', characters=len(ws),
              texts=len(set(wtexts0)))
    words = CH.confusable_words(R1.RESERVED)
    wtexts = []
    for w in words:
        wtexts += [w, w + ' (a)', 'x.' + w, w + '\n' + w]
    total.merge(run_texts(wtexts))
    rep.space('keyword-confusables', words=len(words), texts=len(wtexts))
    rep.bag.merge(total.bag)
    rep.cov['evaluations'] = total.cases
    rep.cov['distinct_nontrivial'] = total.nontrivial
    rep.cov['states'] = total.cases
    rep.cov['transitions'] = total.tokens
    rep.cov['traces_validated_against_impl'] = total.nontrivial
    rep.cov['tokens_checked'] = total.tokens
    rep.cov['token_types_seen'] = dict(total.types)
    rep.outcome(total.out)
    rep.sample([{'text': strs[len(strs) // 2]}, {'text': seqs[len(seqs) // 2]},
                {'text': seqs[-1]}])
    rep.cov['rule'] = (
        'every string over the character-class representatives up to the '
        'length bounds; every sequence of <= 2-3 catalogue lexemes joined '
        'with each separator; S0.  Judged only when the lexer raises '
        'nothing; non-trivial = at least one token was produced; each text '
        'is distinct by construction')
    rep.cov['bounds'] = {'sigma': [(n, k) for n, a, k in CH.spaces(tier)]}
    rep.assumptions += [
        'R1 definitions of white space, line terminators and line counting '
        '(mc/refmodel/lexer.py)',
        'AUTOSEMI tokens synthesised by the lexer have no source text and '
        'are skipped']


def replay(w):
    acc = Acc()
    check_text(acc, w['text'])
    return [{'sig': s, 'detail': v[2]} for s, v in acc.bag.d.items()]
