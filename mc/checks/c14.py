# -*- coding: utf-8 -*-
"""
C14 - unparsing is pure: tree unchanged, printers reusable, shortcuts agree.

History explorer (E4).  An *operation* is either

  ['P', printer, tree, mode]   apply the history's printer OBJECT `printer`
                               (created once per history, reused by every
                               operation of the history that names it) to
                               tree number `tree`;  mode is
        complete   exhaust the generator
        first      take one fragment, then close the generator
        mid        take fragments until the walk is inside the deepest block
                   (open indentation) and then close the generator
        raise      exhaust the generator on the *malformed twin* of the tree
                   (same text, freshly parsed, one deep operand replaced by a
                   bare asttypes.Node for which no definition exists), which
                   makes the walk - for the obfuscating printers already the
                   scope analysis pre-walk, inside three open scopes - raise
  ['S', shortcut, tree]        call a convenience entry point:
        str                    str(tree)
        es5.pretty_print       calmjs.parse.es5.pretty_print(text, ...)
        es5.minify_print       calmjs.parse.es5.minify_print(text, ...)
        es5.minify_print+obf   ... with obfuscate / obfuscate_globals /
                               drop_semi

A *history* is a list of perturbing operations followed by one probing
operation (a complete 'P' call or an 'S' call).  EVERY history of the spaces
listed in `plan()` is executed; nothing is sampled.

Oracle (baseline = the same call made as the only call of a process forked
from the pristine parent, with a fresh printer and a freshly parsed tree):
  * every call yields exactly the baseline fragments (whole list for complete
    calls, the same prefix for abandoned and raising calls, and a raising call
    raises again);
  * the reflection fingerprint (vars(), with positions, _token_map, comments)
    of the tree used by a call is the pristine one after the call, and that of
    every other tree of the history at the end of the history;
  * the shortcuts return what the explicit parse-then-print composition
    returned in the baseline process;
  * the fingerprint of the library's process-global state (all module globals
    and class attributes of calmjs.parse.*) after the history is the one
    before it (every operation is a self-loop); distinct fingerprints seen
    are counted.

Isolation.  Histories run in forked workers, many per worker.  Printers are
rebuilt for every history.  Trees are re-parsed every `reparse_every`
histories (4 quick; 8 / 256 thorough - parsing costs four print calls) and
at once when a tree fingerprint check fails; in between they are reused under
the guard of that check, which runs after every call.  Apart from that the only
thing histories of one worker share is the library's own global state.  Hence
no worker observation is reported directly: each distinct signature is
CONFIRMED by re-running its smallest witnesses alone, under the strict policy
(fresh parse per history, complete global fingerprint after every call), in a
child forked from the pristine parent.  If a witness only reproduces when
histories that the same worker ran before it are run first, the reported
witness is that longer sequence (fresh printer objects per history - still a
sequence of print calls over a pool of printers and trees, i.e. inside the
property's quantifier).  What reproduces under neither is a harness error
(exit 2), never a violation.
"""
from __future__ import unicode_literals

import collections
import itertools

from mc.boot import HarnessError
from mc.pool import pmap, ncpu
from mc.report import jdump, wsize
from mc.explore import history as H

NEEDS_TABLES = True

# ---------------------------------------------------------------------
# the pool
# ---------------------------------------------------------------------

TEXTS = [
    # 0: nested blocks / functions / catch with renamable names
    ("function f(aa, bb) {\n"
     "  var cc = aa;\n"
     "  try { g(cc) } catch (ee) { if (ee) { return function hh(dd) "
     "{ return dd + cc + ee } } }\n"
     "  return bb\n"
     "}\n", False),
    # 1: arrays with elisions (shared surrogate ElisionJoinAttr.sep), object
    #    literal, getter / setter scopes
    ("var x = [1, , a, , , {p: 1, 'q': [,], get r() { return 1 }, "
     "set r(v) { x = v }}, ];\n", False),
    # 2: comments (with_comments=True) and strings with line continuations
    ("/* head */\n"
     "var s = 'ab\\\ncd'; // tail\n"
     "function k(longname) {\n"
     "  // inner\n"
     "  return longname + \"x\\\ny\";\n"
     "}\n", True),
]

MODES = ('complete', 'first', 'mid', 'raise')
SEVERITY = {'complete': 1, 'first': 2, 'mid': 3, 'raise': 4}

PRINTERS5 = ('pretty', 'min_dropsemi', 'min_obf', 'min_obf_glob_shadow',
             'obf_indent')
PRINTERS7 = PRINTERS5 + ('pretty_tab', 'extractor')

# signature context: which rule families a printer is made of, and what the
# same printer object went through earlier in the history
FAMILY = {'pretty': 'indent', 'pretty_tab': 'indent',
          'min_dropsemi': 'minify', 'min_obf': 'minify+obfuscate',
          'min_obf_glob_shadow': 'minify+obfuscate',
          'obf_indent': 'obfuscate+indent', 'extractor': 'extractor'}
BEFORE = {'none': 'none', 'complete': 'complete', 'first': 'abandoned',
          'mid': 'abandoned', 'raise': 'raise'}

SHORTCUTS = ('str', 'str-of-unprintable-tree', 'es5.pretty_print',
             'es5.minify_print',
             'es5.minify_print+obf', 'es5.pretty_print-positional',
             'es5.minify_print-positional')
OBF_KW = collections.OrderedDict([
    ('obfuscate', True), ('obfuscate_globals', True), ('drop_semi', True)])


def lib():
    """Import everything that a history may touch (so that importing is not
    an effect of an operation) and return a namespace."""
    import calmjs.parse as pkg
    from calmjs.parse import asttypes, rules, ruletypes, factory
    from calmjs.parse import sourcemap, vlq, io, walkers  # noqa: F401
    from calmjs.parse.handlers import core, indentation, obfuscation  # noqa
    from calmjs.parse.lexers.es5 import Lexer
    from calmjs.parse.parsers import es5 as parser
    from calmjs.parse.unparsers import es5 as unparser
    from calmjs.parse.unparsers import extractor, walker, base  # noqa: F401
    ns = collections.namedtuple('Lib', [
        'pkg', 'asttypes', 'rules', 'ruletypes', 'Lexer', 'parser',
        'unparser', 'extractor'])
    return ns(pkg, asttypes, rules, ruletypes, Lexer, parser, unparser,
              extractor)


def make_printer(L, name):
    u = L.unparser
    if name == 'pretty':
        return u.pretty_printer()
    if name == 'min_dropsemi':
        return u.minify_printer(drop_semi=True)
    if name == 'min_obf':
        # minify + obfuscate with a reserved list that contains the names the
        # generator would pick first, so that the list matters on small trees
        return u.Unparser(rules=(
            L.rules.minify(drop_semi=False),
            L.rules.obfuscate(
                reserved_keywords=('a', 'b') + tuple(
                    sorted(L.Lexer.keywords_dict))),
        ))
    if name == 'min_obf_glob_shadow':
        return u.minify_printer(
            obfuscate=True, obfuscate_globals=True, shadow_funcname=True)
    if name == 'obf_indent':
        return u.Unparser(rules=(
            L.rules.obfuscate(
                obfuscate_globals=True,
                reserved_keywords=tuple(sorted(L.Lexer.keywords_dict))),
            L.rules.indent(indent_str='  '),
        ))
    if name == 'pretty_tab':
        return u.pretty_printer(indent_str='\t')
    if name == 'extractor':
        return L.extractor.extractor(fold_ops=True)
    raise KeyError(name)


def parse_tree(L, j):
    text, wc = TEXTS[j]
    tree = L.parser.parse(text, with_comments=wc)
    if j == 0:
        # one tree names its source file (as io.read does), the others do
        # not: a path left behind by an abandoned walk shows in their
        # fragments
        tree.sourcepath = 'lib/first.js'
    return tree


def malform(L, tree):
    """
    Replace the right operand of the deepest BinOp / Assign by a bare Node
    (no unparser definition exists for the class name 'Node').
    """
    best = [None, -1]

    def visit(node, depth):
        if type(node).__name__ in ('BinOp', 'Assign') and depth > best[1]:
            best[0], best[1] = node, depth
        for child in node:
            visit(child, depth + 1)
    visit(tree, 0)
    if best[0] is None:
        raise HarnessError('no operand to malform')
    best[0].right = L.asttypes.Node()
    return tree


def explicit(L, kind, j):
    """The explicit parse-then-print composition for a shortcut."""
    text, wc = TEXTS[j]
    tree = L.parser.parse(text, with_comments=wc)
    u = L.unparser
    if kind == 'str-of-unprintable-tree':
        # str(node) IS pretty_print(node): where the explicit call raises,
        # the shortcut has nothing else to return
        try:
            return u.pretty_print(malform(L, tree))
        except Exception as e:
            return 'RAISED %s' % type(e).__name__
    if kind in ('str', 'es5.pretty_print'):
        a = u.pretty_print(tree)
        b = ''.join(c.text for c in u.pretty_printer(indent_str='  ')(
            L.parser.parse(text, with_comments=wc)))
    elif kind == 'es5.minify_print':
        a = u.minify_print(tree)
        b = ''.join(c.text for c in u.minify_printer()(
            L.parser.parse(text, with_comments=wc)))
    elif kind == 'es5.pretty_print-positional':
        a = u.pretty_print(tree, '\t')
        b = ''.join(c.text for c in u.pretty_printer('\t')(
            L.parser.parse(text, with_comments=wc)))
    elif kind == 'es5.minify_print-positional':
        a = u.minify_print(tree, True, True)
        b = ''.join(c.text for c in u.minify_printer(True, True)(
            L.parser.parse(text, with_comments=wc)))
    else:
        a = u.minify_print(tree, **OBF_KW)
        b = ''.join(c.text for c in u.minify_printer(**OBF_KW)(
            L.parser.parse(text, with_comments=wc)))
    if a != b:
        raise HarnessError(
            'print function and printer object disagree for %s/%d' % (kind, j))
    return a


def shortcut(L, kind, j, tree):
    text, wc = TEXTS[j]
    if kind == 'str':
        return str(tree)
    if kind == 'str-of-unprintable-tree':
        try:
            return str(malform(L, L.parser.parse(text, with_comments=wc)))
        except Exception as e:
            return 'RAISED %s' % type(e).__name__
    if kind == 'es5.pretty_print':
        return L.pkg.es5.pretty_print(text, with_comments=wc)
    if kind == 'es5.minify_print':
        return L.pkg.es5.minify_print(text, with_comments=wc)
    if kind == 'es5.pretty_print-positional':
        return L.pkg.es5.pretty_print(text, '\t', with_comments=wc)
    if kind == 'es5.minify_print-positional':
        return L.pkg.es5.minify_print(text, True, True, with_comments=wc)
    return L.pkg.es5.minify_print(text, with_comments=wc, **OBF_KW)


# ---------------------------------------------------------------------
# one call
# ---------------------------------------------------------------------

def norm(name, frags):
    if name == 'extractor':
        return [H.deep_fp(f) for f in frags]
    return frags


def take(gen, n):
    """-> (fragments, exception or None); n None = exhaust."""
    out = []
    try:
        if n is None:
            for f in gen:
                out.append(f)
        else:
            for f in itertools.islice(gen, n):
                out.append(f)
            gen.close()
    except Exception as e:
        return out, e
    return out, None


def mid_index(name, frags):
    """How many fragments to take so that the walk sits inside the deepest
    open block (all Indent handlers of that block have run)."""
    if name == 'extractor' or not frags:
        return max(1, len(frags) // 2)
    depth = 0
    best = (0, 0)
    for i, f in enumerate(frags):
        if f.text == '{':
            depth += 1
            if depth > best[0]:
                best = (depth, i)
        elif f.text == '}':
            depth -= 1
    i = best[1] + 1
    while i < len(frags) - 1 and (
            not frags[i].text.strip() or frags[i].text == '{'):
        i += 1
    return min(len(frags) - 1, i + 1) if len(frags) > 1 else 1


# ---------------------------------------------------------------------
# baselines (computed in a child forked from the pristine parent)
# ---------------------------------------------------------------------

def compute_baselines(printers):
    L = lib()
    base = {'good': {}, 'bad': {}, 'mid': {}, 'short': {}, 'treefp': {},
            'badfp': {}, 'nodes': {}}
    for j in range(len(TEXTS)):
        base['treefp'][j] = H.deep_fp(parse_tree(L, j))
        base['badfp'][j] = H.deep_fp(malform(L, parse_tree(L, j)))
        base['nodes'][j] = 1 + sum(1 for _ in _walk_nodes(parse_tree(L, j)))
        for name in printers:
            frags, exc = take(make_printer(L, name)(parse_tree(L, j)), None)
            if exc is not None:
                raise HarnessError('baseline %s/%d raised %r' % (name, j, exc))
            base['good'][name, j] = norm(name, frags)
            base['mid'][name, j] = mid_index(name, frags)
            frags, exc = take(
                make_printer(L, name)(malform(L, parse_tree(L, j))), None)
            if exc is None:
                raise HarnessError(
                    'malformed tree %d did not make %s raise' % (j, name))
            base['bad'][name, j] = (norm(name, frags), type(exc).__name__)
        for kind in SHORTCUTS:
            want = explicit(L, kind, j)
            try:
                got = shortcut(L, kind, j, parse_tree(L, j))
            except Exception as e:
                # a shortcut that raises where the explicit composition
                # works is an observation (a violation), not a harness fault
                got = 'RAISED %s: %s' % (type(e).__name__, e)
            base['short'][kind, j] = (want, got)
    return base


def _walk_nodes(node):
    for child in node:
        yield child
        for sub in _walk_nodes(child):
            yield sub


# ---------------------------------------------------------------------
# running histories
# ---------------------------------------------------------------------

def p_ops(printers, modes=MODES):
    return [['P', p, j, m] for p in printers for j in range(len(TEXTS))
            for m in modes]


def p_probes(printers):
    return [['P', p, j, 'complete'] for p in printers
            for j in range(len(TEXTS))]


def s_ops():
    return [['S', k, j] for k in SHORTCUTS for j in range(len(TEXTS))]


class Space(object):
    """One enumerated family of histories."""

    def __init__(self, name, perturb, probes, minlen, maxlen, need_s=False,
                 reparse_every=1, gfp_every=1):
        self.name = name
        self.perturb = perturb
        self.probes = probes
        self.minlen = minlen
        self.maxlen = maxlen
        self.need_s = need_s
        self.reparse_every = reparse_every
        self.gfp_every = gfp_every
        self.hs = H.HistorySpace(len(perturb), len(probes), maxlen)
        self.lo = sum(self.hs.by_len[:minlen])

    def history(self, idx):
        ps, q = self.hs.at(idx)
        h = [self.perturb[p] for p in ps] + [self.probes[q]]
        if self.need_s and not any(op[0] == 'S' for op in h):
            return None
        return h

    def blocks(self, size):
        return [(self.name, lo, hi) for lo, hi in self.hs.blocks(size)
                if hi > self.lo]


def plan(tier):
    P5, P7 = p_ops(PRINTERS5), p_ops(PRINTERS7)
    S = s_ops()
    if tier == 'quick':
        return [
            Space('A5', P5, p_probes(PRINTERS5), 0, 2, reparse_every=4),
            Space('B', P5 + S, p_probes(PRINTERS5) + S, 0, 1, need_s=True,
                  reparse_every=4),
        ]
    return [
        Space('A7', P7, p_probes(PRINTERS7), 0, 2, reparse_every=8),
        # three perturbing calls: without the 'first' mode (an abandoned
        # call like 'mid', which leaves more state behind): 45^3 * 15
        # histories; with it (60^3 * 15) the layer alone needs > 20 min
        Space('A5x3', p_ops(PRINTERS5, ('complete', 'mid', 'raise')),
              p_probes(PRINTERS5), 3, 3, reparse_every=256, gfp_every=16),
        Space('B', P5 + S, p_probes(PRINTERS5) + S, 0, 2, need_s=True,
              reparse_every=8),
    ]


LIGHT_SKIP = ('lextab_', 'yacctab_')
# modules whose code runs during printing: fingerprinted after every history;
# all calmjs.parse modules except the ply tables ("light") after every block
# of histories; everything ("full") at the start and the end of each worker
# and after every single call when a witness is confirmed.
HOT = frozenset([
    'calmjs.parse', 'calmjs.parse.asttypes', 'calmjs.parse.factory',
    'calmjs.parse.handlers', 'calmjs.parse.handlers.core',
    'calmjs.parse.handlers.indentation', 'calmjs.parse.handlers.obfuscation',
    'calmjs.parse.lexers.es5', 'calmjs.parse.rules', 'calmjs.parse.ruletypes',
    'calmjs.parse.unparsers', 'calmjs.parse.unparsers.base',
    'calmjs.parse.unparsers.es5', 'calmjs.parse.unparsers.walker',
    'calmjs.parse.utils',
])
HOT_X = HOT | frozenset(['calmjs.parse.unparsers.extractor'])
LEVELS = ('hot', 'light', 'full')


class Runner(object):
    """Executes histories inside one process."""

    def __init__(self, base, strict=False, hot=HOT):
        self.L = lib()
        self.base = base
        self.strict = strict
        self.hot = hot
        self.trees = {}
        self.age = 0
        self.calls = 0
        self.compared = 0
        self.outcomes = collections.Counter()
        self.gfp_ref = {}
        self.gfp_seen = set()
        for level in (('full',) if strict else LEVELS):
            self.gfp_ref[level] = self.gfp(level)
            self.gfp_seen.add(level + ':' + H.digest(self.gfp_ref[level]))
        self.pending = []        # histories since the last hot checkpoint
        self.block = []          # histories since the last light checkpoint

    def gfp(self, level):
        if level == 'hot':
            return H.global_fp(only=self.hot)
        if level == 'light':
            return H.global_fp(skip=LIGHT_SKIP)
        return H.global_fp()

    # -- trees -----------------------------------------------------------
    def tree(self, j, bad):
        t = self.trees.get((j, bad))
        if t is None:
            t = parse_tree(self.L, j)
            if bad:
                malform(self.L, t)
            self.trees[j, bad] = t
        return t

    def tree_ok(self, j, bad):
        want = self.base['badfp' if bad else 'treefp'][j]
        got = H.deep_fp(self.trees[j, bad])
        if got == want:
            return None
        return H.describe_difference(want, got), locate(want, got)

    # -- one history -------------------------------------------------------
    def run(self, h, reparse_every=1, gfp_every=1):
        """-> list of (signature, detail)"""
        vio = []
        if self.strict or reparse_every <= 1 or self.age >= reparse_every:
            self.trees = {}
            self.age = 0
        self.age += 1
        printers = {}
        used = collections.OrderedDict()     # (j, bad) -> step of last check
        prior = {}                           # printer -> worst mode so far
        for step, op in enumerate(h):
            self.calls += 1
            if op[0] == 'P':
                _, name, j, mode = op
                bad = mode == 'raise'
                p = printers.get(name)
                if p is None:
                    p = printers[name] = make_printer(self.L, name)
                before = prior.get(name, 'none')
                ctx = 'rules=%s|same-printer-before=%s' % (
                    FAMILY[name], BEFORE[before])
                tctx = 'rules=%s' % FAMILY[name]
                tree = self.tree(j, bad)
                if mode == 'complete' or mode == 'raise':
                    n = None
                elif mode == 'first':
                    n = 1
                else:
                    n = self.base['mid'][name, j]
                frags, exc = take(p(tree), n)
                frags = norm(name, frags)
                if bad:
                    want, wexc = self.base['bad'][name, j]
                else:
                    want, wexc = self.base['good'][name, j], None
                    if n is not None:
                        want = want[:n]
                self.compared += 1
                self.outcomes['%s:%s' % (
                    mode, 'raised-' + type(exc).__name__ if exc is not None
                    else 'fragments')] += 1
                if exc is not None and wexc is None:
                    vio.append((
                        'C14|unexpected-exception-%s|%s' % (
                            type(exc).__name__, ctx),
                        'step %d raised %r after %d fragments' % (
                            step, exc, len(frags))))
                elif exc is None and wexc is not None:
                    vio.append((
                        'C14|raising-call-did-not-raise-again|' + ctx,
                        'step %d: baseline raised %s' % (step, wexc)))
                elif frags != want:
                    vio.append((
                        'C14|fragments-differ|' + ctx,
                        'step %d: %s' % (step, first_diff(want, frags))))
                if SEVERITY[mode] > SEVERITY.get(before, 0):
                    prior[name] = mode
                key = (j, bad)
            else:
                _, kind, j = op
                ctx = tctx = 'shortcut=%s' % kind
                tree = self.tree(j, False)
                want, first_got = self.base['short'][kind, j]
                self.compared += 1
                try:
                    got = shortcut(self.L, kind, j, tree)
                except Exception as e:
                    got = e
                    vio.append((
                        'C14|shortcut-raised-%s|%s' % (type(e).__name__, ctx),
                        'step %d: %r' % (step, e)))
                self.outcomes['shortcut:%s' % (
                    'text' if isinstance(got, str) else 'raised')] += 1
                if isinstance(got, str) and got != want:
                    vio.append((
                        'C14|shortcut-differs-from-explicit-composition|'
                        + ctx,
                        'step %d: explicit %r shortcut %r' % (
                            step, want[:120], got[:120])))
                key = (j, False)
            # the tree that was just used must be pristine
            used[key] = step
            bad_tree = self.tree_ok(*key)
            if bad_tree is not None:
                detail, where = bad_tree
                vio.append((
                    'C14|tree-modified|%s|%s' % (tctx, where),
                    'step %d: tree %d %s' % (step, j, detail)))
                del self.trees[key]
                del used[key]
            if self.strict:
                self.check_globals('full', vio, 'step %d' % step)
        # every other tree of this history, once more at the end
        for key, at in list(used.items()):
            if at == len(h) - 1 or key not in self.trees:
                continue
            bad_tree = self.tree_ok(*key)
            if bad_tree is not None:
                detail, where = bad_tree
                vio.append((
                    'C14|tree-modified-by-later-call|%s' % where,
                    'tree %d (last used at step %d): %s' % (
                        key[0], at, detail)))
                del self.trees[key]
        if self.strict:
            return vio, []
        self.pending.append(h)
        self.block.append(h)
        out = []
        if len(self.pending) >= gfp_every:
            out = self.checkpoint('hot')
            if len(out) == 1:
                vio.append(out[0][:2])
                out = []
        return vio, out

    def checkpoint(self, level):
        """-> [(sig, detail, candidate history)]: when a fingerprint moved,
        every history since the previous checkpoint of that level is a
        candidate (the confirmation step finds out which)."""
        gv = []
        hs = self.pending if level == 'hot' else self.block
        if hs:
            self.check_globals(level, gv, 'after history')
        out = [(s, d, hh) for s, d in gv for hh in hs]
        if level == 'hot':
            self.pending = []
        else:
            self.block = []
        return out

    def block_end(self, last=False):
        hs = list(self.block)
        out = self.checkpoint('hot') + self.checkpoint('light')
        if last:
            gv = []
            self.check_globals('full', gv, 'at the end of the worker')
            out += [(s, d, hh) for s, d in gv for hh in hs]
        return out

    def check_globals(self, level, vio, when):
        now = self.gfp(level)
        ref = self.gfp_ref[level]
        if now != ref:
            key = H.first_difference(ref, now)
            a, b = dict(ref).get(key), dict(now).get(key)
            # A change of process-global state is NOT by itself a violation
            # of C14 (the property speaks of the tree and of the fragment
            # sequences); it is recorded in the evidence.  If it matters, a
            # later call of some history yields different fragments and is
            # reported through that clause.
            self.gfp_seen.add('CHANGED %s (%s)' % (key, level))
            self.gfp_ref[level] = now
            self.gfp_seen.add(level + ':' + H.digest(now))


def first_diff(want, got):
    for i, (a, b) in enumerate(zip(want, got)):
        if a != b:
            return 'fragment %d: baseline %r got %r' % (
                i, _short(a), _short(b))
    return 'length: baseline %d got %d fragments' % (len(want), len(got))


def _short(f):
    return getattr(f, 'text', None) if hasattr(f, 'text') else repr(f)[:80]


def locate(a, b):
    """class / attribute of the innermost object enclosing the first
    difference of two deep_fp values -> 'node=<Class>|attr=<name>'."""
    cls, attr = '?', '?'
    while isinstance(a, tuple) and isinstance(b, tuple):
        if len(a) != len(b):
            break
        if len(a) == 3 and a[0] == 'O' and b[0] == 'O':
            cls = a[1].rsplit('.', 1)[-1]
            if a[1] != b[1]:
                attr = '__class__'
                break
            a, b = a[2], b[2]
            if len(a) != len(b):
                attr = '__dict__'
                break
            for (ka, va), (kb, vb) in zip(a, b):
                if ka != kb:
                    attr = '__dict__'
                    a = b = None
                    break
                if va != vb:
                    attr = ka
                    a, b = va, vb
                    break
            else:
                break
            continue
        for x, y in zip(a, b):
            if x != y:
                a, b = x, y
                break
        else:
            break
    return 'node=%s|attr=%s' % (cls, attr)


# ---------------------------------------------------------------------
# the check
# ---------------------------------------------------------------------

KEEP = 3          # witnesses kept per signature and worker


class Cands(object):
    """signature -> [count, [(size, json, history, detail, origin)]]"""

    def __init__(self):
        self.d = {}

    def add(self, sig, h, detail, origin):
        e = self.d.setdefault(sig, [0, []])
        e[0] += 1
        item = (wsize(h), jdump(h), h, detail, origin)
        if len(e[1]) < KEEP or item[:2] < e[1][-1][:2]:
            if all(item[1] != x[1] for x in e[1]):
                e[1].append(item)
                e[1].sort(key=lambda x: x[:2])
                del e[1][KEEP:]

    def merge(self, other):
        for sig, (n, items) in other.d.items():
            e = self.d.setdefault(sig, [0, []])
            e[0] += n
            for it in items:
                if all(it[1] != x[1] for x in e[1]):
                    e[1].append(it)
            e[1].sort(key=lambda x: x[:2])
            del e[1][KEEP:]


def run(tier, rep):
    spaces = plan(tier)
    by_name = dict((s.name, s) for s in spaces)
    printers = PRINTERS5 if tier == 'quick' else PRINTERS7

    # baselines: twice, in two fresh children of the pristine parent
    base = H.fresh_child(compute_baselines, printers)
    again = H.fresh_child(compute_baselines, printers)
    if base != again:
        rep.harness_errors.append(
            'baselines differ between two fresh processes (nondeterminism)')
        return
    for (kind, j), (want, got) in sorted(base['short'].items()):
        if want != got:
            rep.bag.add(
                'C14|shortcut-differs-from-explicit-composition|shortcut=%s'
                % kind, {'histories': [[['S', kind, j]]]},
                'first call of a fresh process: explicit %r shortcut %r' % (
                    want[:120], got[:120]))

    size = 256 if tier == 'quick' else 1024
    items = []
    for s in spaces:
        items.extend(s.blocks(size))
    nw = ncpu()

    def work(blocks, widx):
        r = Runner(base, hot=HOT if tier == 'quick' else HOT_X)
        cands = Cands()
        nh = nontrivial = 0
        lens = collections.Counter()
        for bi, (name, lo, hi) in enumerate(blocks):
            sp = by_name[name]
            for idx in range(max(lo, sp.lo), hi):
                h = sp.history(idx)
                if h is None:
                    continue
                vio, deferred = r.run(h, sp.reparse_every, sp.gfp_every)
                nh += 1
                lens[len(h) - 1] += 1
                if len(h) > 1:
                    nontrivial += 1
                for sig, detail in vio:
                    cands.add(sig, h, detail, (widx, bi, idx, 0))
                for sig, detail, hh in deferred:
                    cands.add(sig, hh, detail, (widx, bi, idx, 1))
            for sig, detail, hh in r.block_end(bi == len(blocks) - 1):
                cands.add(sig, hh, detail, (widx, bi, hi - 1, 1))
        return (nh, nontrivial, r.calls, r.compared, dict(r.outcomes),
                sorted(r.gfp_seen), dict(lens), cands)

    results = pmap(work, items, nworkers=nw)
    cands = Cands()
    gfps = set()
    lens = collections.Counter()
    nh = nontrivial = calls = compared = 0
    for a, b, c, d, oc, seen, ln, cd in results:
        nh += a
        nontrivial += b
        calls += c
        compared += d
        rep.outcome(oc)
        gfps.update(seen)
        lens.update(ln)
        cands.merge(cd)

    # confirmation in fresh children under the strict policy
    nworkers_used = len(results)

    def strict_run(hs):
        r = Runner(base, strict=True)
        sigs = {}
        for h in hs:
            vio, _ = r.run(h)
            for s, d in vio:
                sigs.setdefault(s, d)
        return sigs

    def predecessors(origin):
        # `deferred`: the observation was made at a checkpoint after history
        # idx, so idx itself is among the suspects
        widx, bi, idx, deferred = origin
        mine = items[widx::nworkers_used]
        out = []
        for k, (name, lo, hi) in enumerate(mine[:bi + 1]):
            sp = by_name[name]
            top = hi if k < bi else idx + deferred
            for i in range(max(lo, sp.lo, top - 1024), top):
                h = sp.history(i)
                if h is not None:
                    out.append(h)
        return out[-1024:]

    confirmed = 0
    for sig in sorted(cands.d):
        n, wits = cands.d[sig]
        done = False
        for _, _, h, detail, origin in wits:
            got = H.fresh_child(strict_run, [h])
            if got:
                # the strict run names the violation(s); the worker's
                # signature is kept when it is among them
                for s in ([sig] if sig in got else sorted(got)):
                    rep.bag.add(s, {'histories': [h]}, got[s])
                    rep.bag.d[s][0] += n - 1 if s == sig else 0
                done = True
                break
        if not done:
            _, _, h, detail, origin = wits[0]

            def seq_run(hs):
                return set(strict_run(hs))
            kind, hs = H.confirm(seq_run, h, predecessors(origin), sig)
            if kind == 'lost':
                rep.harness_errors.append(
                    'worker observation %s (%d cases, e.g. %s: %s) does not '
                    'reproduce in a fresh process, neither alone nor after '
                    'the <=1024 histories its worker ran before it: state '
                    'leaked between histories inside the harness, or the run '
                    'is not deterministic' % (sig, n, jdump(h), detail))
                continue
            rep.bag.add(sig, {'histories': hs},
                        'only after earlier histories; ' + str(detail))
            rep.bag.d[sig][0] += n - 1
        confirmed += 1

    rep.cov['evaluations'] = nh
    rep.cov['distinct_nontrivial'] = nontrivial
    rep.cov['states'] = nh
    rep.cov['transitions'] = calls
    rep.cov['traces_validated_against_impl'] = compared
    per_level = {}
    for g in gfps:
        level, dig = g.split(':', 1)
        per_level.setdefault(level, set()).add(dig)
    # one class per fingerprint level (hot / light / full) when every
    # operation is a self-loop on global state
    rep.cov['global_fingerprints_distinct'] = max(
        [len(v) for v in per_level.values()] or [0])
    rep.cov['global_fingerprints_per_level'] = dict(
        (k, sorted(v)) for k, v in sorted(per_level.items()))
    rep.cov['histories_by_number_of_perturbing_calls'] = dict(
        (str(k), v) for k, v in sorted(lens.items()))
    rep.cov['worker_signatures_confirmed_in_fresh_process'] = confirmed
    rep.cov['rule'] = (
        'states = histories executed (each = <=k perturbing operations + 1 '
        'probing operation, enumerated as a plain product, every one run '
        'with printer objects created for that history); transitions = '
        'print / shortcut calls executed; traces = call outcomes compared '
        'with the fresh-process baseline.  A history is non-trivial when the '
        'probing call has at least one predecessor.  The process-global '
        'state fingerprint must stay in ONE class: '
        'global_fingerprints_distinct is the number of classes seen')
    rep.cov['bounds'] = {
        'trees': len(TEXTS), 'printers': list(printers), 'modes': list(MODES),
        'shortcuts': list(SHORTCUTS),
        'spaces': [collections.OrderedDict([
            ('name', s.name), ('perturbing_ops', len(s.perturb)),
            ('probing_ops', len(s.probes)), ('min_perturbing', s.minlen),
            ('max_perturbing', s.maxlen),
            ('only_histories_with_a_shortcut', s.need_s),
            ('reparse_every', s.reparse_every),
            ('global_fp_every', s.gfp_every)]) for s in spaces]}
    for s in spaces:
        rep.space(s.name, enumerated=s.hs.total - s.lo)
    rep.space('pool', tree_nodes=base['nodes'],
              fragments=dict(('%s/%d' % k, len(v))
                             for k, v in sorted(base['good'].items())),
              abandon_mid_after=dict(('%s/%d' % k, v)
                                     for k, v in sorted(base['mid'].items())),
              raise_after=dict(
                  ('%s/%d' % k, '%d fragments then %s' % (len(v[0]), v[1]))
                  for k, v in sorted(base['bad'].items())))
    rep.sample([{'histories': [by_name[spaces[0].name].history(i)]}
                for i in (0, 17, 400, 915 + 1234, 915 + 40001)
                if i < spaces[0].hs.total])
    rep.sample([{'histories': [h]} for h in (
        spaces[-1].history(i) for i in range(
            spaces[-1].hs.total - 40, spaces[-1].hs.total)) if h][:3],
        limit=8)
    from mc.checks import c14il
    c14il.run(tier, rep, printers)
    from mc.checks import c14hh
    c14hh.run(tier, rep)
    rep.cov['rule'] += (
        '.  Interleaved part (c14il.py): one state = one schedule of two '
        'LIVE print calls (generators advanced alternately, every schedule '
        'with the stated number of pre-emptions at fragment boundaries); '
        'each call of each schedule is compared with the fresh-process '
        'baseline.  Helper part (c14hh.py): one state = one sequence of '
        '<= k calls of es5.pretty_print / es5.minify_print on source text '
        'from a pool of history-sensitive texts, every call compared with '
        'the explicit composition computed in a fresh process')
    rep.assumptions += [
        'a call can influence a later call only through (a) the printer '
        'object, (b) the tree objects, (c) global state of calmjs.parse '
        'modules; (a) is rebuilt per history, (b) is fingerprinted by '
        'reflection after every call, (c) is fingerprinted after every '
        'history (after every call when a witness is confirmed); state kept '
        'in C extensions or outside calmjs.parse.* (e.g. the logging module) '
        'is not fingerprinted',
        'in the history spaces an abandoned generator is closed at once '
        '(CPython reference counting); generators that stay suspended '
        'while other calls run are explored by the interleaved part only',
        'a raising call is modelled by one kind of malformation (a node '
        'without definition -> KeyError); the exception text is not judged, '
        'only the fragments before it and the fact that it raises again',
    ]


def replay(w):
    if 'helper_calls' in w:
        from mc.checks import c14hh
        return c14hh.replay(w['helper_calls'])
    if 'interleave' in w:
        from mc.checks import c14il
        return c14il.replay(w['interleave'])
    base = H.fresh_child(compute_baselines, PRINTERS7)
    hs = [list(h) for h in w['histories']]

    def go(hs):
        r = Runner(base, strict=True)
        out = collections.OrderedDict()
        for h in hs:
            vio, _ = r.run(h)
            for s, d in vio:
                out.setdefault(s, d)
        return out
    got = H.fresh_child(go, hs)
    res = [{'sig': s, 'detail': d} for s, d in got.items()]
    for h in hs:
        if len(h) == 1 and h[0][0] == 'S':
            want, first = base['short'][h[0][1], h[0][2]]
            if want != first:
                res.append({
                    'sig': 'C14|shortcut-differs-from-explicit-composition|'
                           'shortcut=%s' % h[0][1],
                    'detail': 'explicit %r shortcut %r' % (want, first)})
    return res
