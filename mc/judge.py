# -*- coding: utf-8 -*-
"""Shared oracles / signature helpers for the parser-facing properties."""
from __future__ import unicode_literals

import re
import unicodedata

from mc.refmodel import parser as R2
from mc.refmodel import tree as R3
from mc.refmodel.lexer import LineIndex, RESERVED
from mc import impl as I


def tclass(tok, fine=False):
    if tok is None:
        return 'NONE'
    if fine and tok.type == 'regex' and not tok.value.endswith('/') and \
            tok.value[tok.value.rindex('/') + 1:] not in ('in', 'instanceof'):
        # a regular expression literal that ends in flag letters is another
        # neighbour than one that ends in its closing slash; flags spelled
        # `in` / `instanceof` are what a flag-less literal fused with the
        # operator looks like and keep the plain class
        return 'REGEX-FLAGS'
    if tok.type == 'eof':
        return 'EOF'
    if tok.type == 'punct':
        return tok.value
    if tok.type == 'id':
        if tok.value in RESERVED or tok.value in ('get', 'set'):
            return tok.value
        return 'ID'
    return tok.type.upper()


def gap_class(text, a_end, b_start):
    """Class of the layout between two tokens."""
    gap = text[a_end:b_start]
    if gap == '':
        return 'none'
    has_lt = any(c in gap for c in '\n\r\u2028\u2029')
    has_c = '/*' in gap or '//' in gap
    usp = any(c in gap for c in '\u2028\u2029')
    if not has_lt and not has_c:
        return 'ws'
    if has_c and not has_lt:
        return 'comment'
    if has_lt and not has_c:
        return 'LSPS' if usp else 'LT'
    # both: where is the first line terminator relative to the comment?
    m = re.search(r'/\*.*?\*/|//[^\n\r\u2028\u2029]*', gap, re.S)
    lt_in_comment = any(c in m.group(0) for c in '\n\r\u2028\u2029')
    before = any(c in gap[:m.start()] for c in '\n\r\u2028\u2029')
    after = any(c in gap[m.end():] for c in '\n\r\u2028\u2029')
    return 'LT%s%s%s' % ('-before-comment' if before else '',
                         '-in-comment' if lt_in_comment else '',
                         '-after-comment' if after else '')


OPERAND_END = frozenset(['ID', 'NUM', 'STR', 'REGEX', 'this', 'null', 'true',
                         'false', ')', ']', '}', 'get', 'set'])
RESTRICTED_KW = frozenset(['return', 'break', 'continue', 'throw'])
STMT_KW = frozenset(['var', 'if', 'for', 'while', 'do', 'return', 'break',
                     'continue', 'throw', 'switch', 'try', 'with', 'debugger',
                     'else', 'case', 'default', 'catch', 'finally'])
OPERAND_START = frozenset(['ID', 'NUM', 'STR', 'this', 'null', 'true',
                           'false', 'function', 'new', 'get', 'set'])


def coarse_prev(c):
    if c in OPERAND_END:
        return 'OPERAND'
    if c in ('++', '--'):
        return 'INCDEC'
    if c in RESTRICTED_KW:
        return c
    if c in ('NONE', 'EOF', ';', '{', '(', '[', ',', ':', '='):
        return c
    if c[:1].isalpha():
        return 'KEYWORD'
    return 'OP'


def coarse_next(c):
    if c in OPERAND_START:
        return 'OPERAND'
    if c in ('typeof', 'void', 'delete', '!', '~'):
        return 'UNARY'
    if c in STMT_KW:
        return 'STMT-KW'
    if c in ('(', '[', '{', '}', ';', 'EOF', ')', ']', ',', ':', '?', '.',
             'in', 'instanceof', '='):
        return c
    if c in ('/', '/=', 'REGEX'):
        return 'SLASH'
    if c in ('++', '--'):
        return 'INCDEC'
    if c in ('+', '-'):
        return 'PLUSMINUS'
    if c[:1].isalpha():
        return 'KEYWORD'
    return 'OP'


def coarse_ctx(ctx):
    """'prev gap next' -> coarse classes"""
    parts = ctx.split(' ')
    if len(parts) != 3:
        return ctx
    return 'prev=%s|gap=%s|next=%s' % (
        coarse_prev(parts[0]), parts[1], coarse_next(parts[2]))


def ref_lex_all(text):
    """Token list of an R2-accepted text (consumed tokens)."""
    r = R2.parse(text)
    return r


def ctx_at(text, ref, offset, fine=False):
    """(prev class, gap class, class at offset) from R2's token list."""
    toks = list(ref.tokens)
    extra = getattr(ref, 'tok', None)
    if extra is not None:
        toks = toks + [extra]
    prev = None
    for t in toks:
        if t.start == offset:
            g = gap_class(text, prev.end, t.start) if prev else 'start'
            return '%s %s %s' % (tclass(prev, fine), g, tclass(t, fine))
        if t.start > offset:
            break
        prev = t
    return '%s ? ?' % tclass(prev, fine)


def impl_error_offset(text, msg):
    pos = I.error_positions(msg)
    if not pos:
        return None
    li = LineIndex(text)
    return li.offset(pos[0][0], pos[0][1])


def msg_kind(msg):
    m = re.match(r'([A-Za-z ]+?)(?= [\'"(]| at |$)', msg)
    k = m.group(1) if m else msg[:20]
    return k.strip().replace(' ', '-')


def judge_c03(text, out, ref):
    """
    C03: accept <=> derivable, and the tree is the one dictated.
    Returns None or (signature, detail).
    """
    if ref.verdict == 'abstain' or out.kind == 'crash':
        return None     # crashes are C12's business
    if ref.verdict == 'accept':
        if out.kind == 'accept':
            if out.tree == ref.neutral:
                return None
            return ('C03|tree-differs|%s' % R3.diff_kind(out.tree,
                                                        ref.neutral),
                    R3.first_diff(out.tree, ref.neutral))
        off = impl_error_offset(text, out.msg)
        if off is None:
            toks = ref.tokens
            ctx = 'end: %s' % ' '.join(tclass(t) for t in toks[-2:])
        else:
            ctx = ctx_at(text, ref, off)
        mk = msg_kind(out.msg)
        if mk == 'Illegal-character' and off is not None and off < len(text):
            # which kind of character: findings about escapes / joiners must
            # not cover a letter missing from the identifier tables
            ch = text[off]
            mk += ':' + ('backslash' if ch == '\\' else
                         'joiner' if ch in '\u200c\u200d' else
                         'ascii' if ord(ch) < 128 else
                         'cat=' + unicodedata.category(ch))
        return ('C03|impl-rejects|%s|%s' % (mk, ctx), out.msg)
    # reference rejects
    if out.kind == 'accept':
        ctx = ctx_at(text, ref, ref.offset) if ref.tok is not None else \
            'lexical'
        return ('C03|impl-accepts|%s|%s' % (ref.reason, ctx),
                'reference rejects at offset %d: %s' % (
                    ref.offset, ref.reason))
    return None
