# -*- coding: utf-8 -*-
"""Unit checks of the reference models (run by `run.py selftest`)."""
from __future__ import unicode_literals

from mc.refmodel import parser as R2
from mc.refmodel import scope as R4
from mc.refmodel.lexer import LineIndex

ACCEPT = [
    'a', 'a\nb', 'a\n++b', 'a\n++\nb', 'return\nx', 'x = {get: 1, set: 2}',
    "({get 'p'(){}, set 1(v){}})", 'a.if / b', 'if (a)\n/re/.test(b)',
    '{}\n/re/.test(b)', 'for (var i = 0 in x) y', 'for (a ? b in c : d;;) x',
    'a /*\n*/ b', 'throw a', 'do x; while (y)\nz', 'function f(){} (x)',
    'a && {}', "x = '\\ \\X'", 'x = /[/]/g', 'l: function f(){}',
    '1 .p', '1..p', 'new new a(b)(c)', '[,,a,,]', 'a b',
    'a = b\n/c/d', 'break\n;', 'var \\u0061bc', 'a1\xe9 = 1',
]
REJECT = [
    'a b', 'a ++ ++', 'function(){}', '1.p', 'throw\na', 'do x; while (y) z',
    'for (a == b in c;;) x', 'for (a, b in c) x', 'a + b = c', '{,}',
    '({get})', 'if (a) else b', 'for (;;', '/ \n /', "'a\nb'", '1a', '0x',
    'var if', 'a.', 'switch (a) { default: default: }', 'try {}',
    'x = {a:1,,}', '/*', "x = '\\x4'", 'a\n++', '#',
]
ABSTAIN = ['010', "'\\8'", "x = '\\01'", 'x = /a/$', 'a᠎b']
SHAPES = [
    ('a + b * c', 'BinOp:+'), ('a * b + c', 'BinOp:+'),
    ('a = b = c', 'Assign:='), ('a ? b : c ? d : e', 'Conditional'),
    ('new a.b(c).d', 'DotAccessor'), ('((a))', 'GroupingOp'),
    ('a, b, c', 'Comma'), ('typeof a in b', 'BinOp:in'),
    ('a\n/b/g', 'BinOp:/'),
]


def top_expr(tree):
    st = tree.get('children')[0]
    e = st.get('expr')
    op = dict(e.fields).get('op')
    return e.kind + (':' + op if op else '')


def main():
    ok = True
    for t in ACCEPT:
        if R2.parse(t).verdict != 'accept':
            print('selftest: R2 should accept %r' % t)
            ok = False
    for t in REJECT:
        if R2.parse(t).verdict != 'reject':
            print('selftest: R2 should reject %r' % t)
            ok = False
    for t in ABSTAIN:
        if R2.parse(t).verdict != 'abstain':
            print('selftest: R2 should abstain on %r' % t)
            ok = False
    for t, shape in SHAPES:
        r = R2.parse(t)
        if r.verdict != 'accept' or top_expr(r.tree) != shape:
            print('selftest: R2 shape of %r is not %s' % (t, shape))
            ok = False
    r = R2.parse('a\nb\n{c}\nreturn\nd')
    if len(r.tree.get('children')) != 5 or len(r.asi) != 5:
        print('selftest: ASI bookkeeping wrong', r.asi)
        ok = False
    li = LineIndex('ab\r\ncd e\rf')
    if [li.linecol(o) for o in (0, 4, 7, 9)] != [(1, 1), (2, 1), (3, 1),
                                                 (4, 1)] or \
            li.offset(1, 9) is not None or li.offset(2, 2) != 5:
        print('selftest: LineIndex wrong')
        ok = False
    occ = R4.resolve(R2.parse(
        'var x; function f(x){ x; y; try{}catch(y){ y; var z } z }').tree)
    kinds = [(n, b[0]) for o, n, b, r_ in occ]
    want = [('x', 'var'), ('f', 'var'), ('x', 'var'), ('x', 'var'),
            ('y', 'free'), ('y', 'catch'), ('y', 'catch'), ('z', 'var'),
            ('z', 'var')]
    if kinds != want:
        print('selftest: scope resolver wrong', kinds)
        ok = False
    return ok
