# -*- coding: utf-8 -*-
"""Thin drivers around the implementation under test (scratch copy)."""
from __future__ import unicode_literals

import re
import traceback

from mc.refmodel import tree as R3


class Outcome(object):
    __slots__ = ('kind', 'tree', 'node', 'msg', 'exc_type', 'where')

    def __init__(self, kind, tree=None, node=None, msg=None, exc_type=None,
                 where=None):
        self.kind = kind        # accept / reject / crash
        self.tree = tree        # neutral tree
        self.node = node        # calmjs node
        self.msg = msg
        self.exc_type = exc_type
        self.where = where

    @property
    def eof(self):
        return self.kind == 'reject' and self.msg.startswith(
            'Unexpected end of input')


def run_parse(text, with_comments=False, keep_node=False):
    from calmjs.parse.parsers.es5 import parse
    from calmjs.parse.exceptions import ECMASyntaxError
    try:
        node = parse(text, with_comments=with_comments)
    except ECMASyntaxError as e:
        return Outcome('reject', msg=str(e), exc_type=type(e).__name__)
    except RecursionError:
        return Outcome('crash', msg='RecursionError',
                       exc_type='RecursionError', where='')
    except Exception as e:
        tb = traceback.extract_tb(e.__traceback__)
        where = ''
        for fr in reversed(tb):
            if '/calmjs/parse/' in fr.filename:
                where = '%s:%s' % (fr.filename.split('/calmjs/parse/')[-1],
                                   fr.name)
                break
        return Outcome('crash', msg=repr(e)[:200], exc_type=type(e).__name__,
                       where=where)
    return Outcome('accept', tree=R3.from_calmjs(node),
                   node=node if keep_node else None)


AT = re.compile(r' at (\d+):(\d+)')


def error_positions(msg):
    return [(int(a), int(b)) for a, b in AT.findall(msg)]
