# -*- coding: utf-8 -*-
"""
Scratch build of calmjs.parse from /repo's *working tree*.

`cd /repo && pytest` and any plain `import calmjs.parse` resolve to the copy
installed in /venv/site-packages (the calmjs nspkg .pth file pins
``calmjs.__path__``), not to /repo/src.  Every check therefore

  1. copies  <src_root>/calmjs/parse  to a fresh temporary directory,
  2. removes any generated lextab/yacctab modules from the copy,
  3. puts the copy in front of ``calmjs.__path__`` and purges
     ``calmjs.parse*`` from sys.modules,
  4. imports it and *asserts* the import came from the scratch directory,
  5. generates the lexer / LALR tables from the current sources, once, in the
     parent process, before any worker forks.

The scratch directory is removed by `cleanup()` (registered with atexit).
"""
from __future__ import unicode_literals

import atexit
import contextlib
import io
import os
import shutil
import sys
import tempfile

REPO_SRC_DEFAULT = '/repo/src'

_state = {'scratch': None, 'build_stderr': '', 'src_root': None}


class HarnessError(Exception):
    """Raised for failures of the machinery itself (exit status 2)."""


def src_root():
    return os.environ.get('VERIF_SRC') or REPO_SRC_DEFAULT


def cleanup():
    d = _state.get('scratch')
    if d and os.path.isdir(d) and _state.get('owner') == os.getpid():
        shutil.rmtree(d, ignore_errors=True)
    _state['scratch'] = None


def make_scratch(root=None, keep_tabs=False):
    """Copy <root>/calmjs/parse into a new temp dir; return the dir."""
    root = root or src_root()
    pkg = os.path.join(root, 'calmjs', 'parse')
    if not os.path.isdir(pkg):
        raise HarnessError('no calmjs/parse package under %r' % root)
    base = os.environ.get('VERIF_TMP') or tempfile.gettempdir()
    scratch = tempfile.mkdtemp(prefix='verif_scratch_', dir=base)
    dst = os.path.join(scratch, 'calmjs', 'parse')
    os.makedirs(os.path.join(scratch, 'calmjs'))

    def ignore(d, names):
        out = [n for n in names if n == '__pycache__' or n.endswith('.pyc')]
        if not keep_tabs:
            out += [n for n in names
                    if n.startswith(('lextab_', 'yacctab_')) or
                    n in ('parser.out',)]
        return out
    shutil.copytree(pkg, dst, ignore=ignore)
    return scratch


def activate(scratch):
    """Make `import calmjs.parse` resolve to the scratch copy."""
    import calmjs
    for name in list(sys.modules):
        if name == 'calmjs.parse' or name.startswith('calmjs.parse.'):
            del sys.modules[name]
    path = [p for p in list(calmjs.__path__)
            if not p.startswith(tempfile.gettempdir() + '/verif_scratch_')]
    calmjs.__path__ = [os.path.join(scratch, 'calmjs')] + path
    import importlib
    importlib.invalidate_caches()
    import calmjs.parse
    f = os.path.realpath(calmjs.parse.__file__)
    if not f.startswith(os.path.realpath(scratch) + os.sep):
        raise HarnessError(
            'calmjs.parse imported from %s, not from scratch %s' % (
                f, scratch))
    return calmjs.parse


def generate_tables():
    """Build lextab/yacctab inside the scratch copy from current sources."""
    err = io.StringIO()
    # ply reports grammar conflicts through its own logger writing to
    # sys.stderr; capture, never parse for verdicts.
    with contextlib.redirect_stderr(err):
        from calmjs.parse.parsers import es5
        es5.Parser()
        es5.Parser(with_comments=True)
    _state['build_stderr'] = err.getvalue()
    from calmjs.parse.parsers import es5
    d = os.path.dirname(os.path.realpath(es5.__file__))
    tabs = sorted(n for n in os.listdir(d)
                  if n.startswith(('lextab_', 'yacctab_')))
    return tabs


def boot(tables=True):
    """
    Full scratch build.  Returns a dict describing what was built.
    """
    if _state['scratch']:
        return _state['info']
    sys.dont_write_bytecode = True
    root = src_root()
    scratch = make_scratch(root)
    _state['scratch'] = scratch
    _state['owner'] = os.getpid()
    atexit.register(cleanup)
    mod = activate(scratch)
    tabs = generate_tables() if tables else []
    info = {
        'src_root': root,
        'scratch': scratch,
        'package_file': mod.__file__,
        'tables': tabs,
        'source_digest': tree_digest(os.path.join(root, 'calmjs', 'parse')),
    }
    _state['info'] = info
    return info


def scratch_dir():
    return _state['scratch']


def build_stderr():
    return _state['build_stderr']


def tree_digest(pkg):
    import hashlib
    h = hashlib.sha256()
    for d, dirs, files in sorted(os.walk(pkg)):
        dirs[:] = sorted(x for x in dirs if x not in ('__pycache__', 'tests'))
        for n in sorted(files):
            if not n.endswith('.py') or n.startswith(('lextab_', 'yacctab_')):
                continue
            p = os.path.join(d, n)
            h.update(os.path.relpath(p, pkg).encode())
            with open(p, 'rb') as fd:
                h.update(fd.read())
    return h.hexdigest()[:16]
