# -*- coding: utf-8 -*-
"""
E5 - CHESS style schedule explorer for real threads.

`Baton` serialises n real `threading.Thread`s: every thread owns a semaphore
and only runs while it holds the baton, so exactly one thread is runnable at
any time and an execution is a deterministic function of the sequence of
scheduling decisions.  A decision is taken (by whichever thread holds the
baton - there is no controller thread, continuing the same thread costs no
synchronisation) at every *scheduling point*:

  * thread start (every thread begins blocked on its semaphore),
  * each call of `Baton.point(label)` made by instrumentation that the check
    injects from outside (C15: a class level wrapper around `Lexer._token`, or
    a `sys.settrace` line hook),
  * thread end.

`explore_all` enumerates ALL complete schedules depth first over choice
prefixes with replay: a run follows a prefix of forced choices and then the
default policy (lowest enabled thread id); every untried alternative of every
later decision becomes a new prefix.  While a prefix is replayed the set of
enabled threads at each decision must be the recorded one - a divergence is a
hard harness error (`ScheduleError`), never a verdict.

`one_preemption` runs the schedule "thread `first` runs alone up to its k-th
traced line, then the other threads run to completion one after the other,
then `first` resumes" (all schedules with <= 1 pre-emption at line
granularity are obtained by ranging over `first` and k).

Waiting is visible: all threads block only on their own semaphore, so the set
of enabled threads is the set of unfinished ones; if the thread holding the
baton blocks on anything else (a lock held by a suspended thread) nothing can
move - this is reported after `timeout` seconds as a deadlock with the
position of every thread.  Each execution has a step horizon.

What is NOT modelled: pre-emption between two scheduling points, i.e.
unsynchronised access below token (resp. line) granularity, e.g. between the
bytecodes of one source line or inside C code that releases the GIL.
"""
from __future__ import unicode_literals

import sys
import threading
import traceback

from mc.boot import HarnessError


class ScheduleError(HarnessError):
    pass


class Baton(object):

    def __init__(self, n, chooser, horizon=100000, timeout=60.0):
        self.n = n
        self.chooser = chooser
        self.horizon = horizon
        self.timeout = timeout
        self.sems = [threading.Semaphore(0) for _ in range(n)]
        self.finished = [False] * n
        self.results = [None] * n
        self.at = ['start'] * n
        self.trace = []          # [(enabled tuple, chosen)] one per decision
        self.events = []         # [(tid, label)] one per scheduling point
        self.done = threading.Event()
        self.error = None
        self.current = None
        self.local = threading.local()
        self.idents = [None] * n
        self.tracers = [None] * n

    # -- decisions -------------------------------------------------------
    def enabled(self):
        return tuple(i for i in range(self.n) if not self.finished[i])

    def _decide(self, me):
        en = self.enabled()
        if not en:
            return None
        step = len(self.trace)
        if step >= self.horizon:
            raise ScheduleError(
                'step horizon %d exceeded (livelock?)' % self.horizon)
        c = self.chooser(step, en, me)
        if c not in en:
            raise ScheduleError(
                'decision %d chose thread %r which is not enabled %r' % (
                    step, c, en))
        self.trace.append((en, c))
        return c

    def _fail(self, e):
        if self.error is None:
            self.error = e
        self.done.set()

    def tid(self):
        return getattr(self.local, 'tid', None)

    def point(self, label):
        """A scheduling point of the calling thread (no-op for threads that
        do not belong to this baton)."""
        tid = getattr(self.local, 'tid', None)
        if tid is None:
            return
        self.events.append((tid, label))
        self.at[tid] = label
        try:
            nxt = self._decide(tid)
        except ScheduleError as e:
            self._fail(e)
            raise
        if nxt != tid:
            self.current = nxt
            self.sems[nxt].release()
            self.sems[tid].acquire()

    # -- threads -----------------------------------------------------------
    def _main(self, tid, body):
        self.local.tid = tid
        self.idents[tid] = threading.get_ident()
        self.sems[tid].acquire()                 # start point
        tracer = self.tracers[tid]
        try:
            if tracer is not None:
                sys.settrace(tracer)
            try:
                res = ('ok', body())
            except ScheduleError:
                sys.settrace(None)
                return
            except Exception as e:
                res = ('exc', e)
        finally:
            sys.settrace(None)
        self.results[tid] = res
        self.finished[tid] = True
        self.at[tid] = 'end'
        self.events.append((tid, 'end'))
        try:
            nxt = self._decide(tid)
        except ScheduleError as e:
            self._fail(e)
            return
        if nxt is None:
            self.done.set()
        else:
            self.current = nxt
            self.sems[nxt].release()

    def run(self, bodies, crew=None):
        """Run the bodies on fresh threads, or on the persistent threads of
        `crew` (same semantics; avoids creating OS threads per execution)."""
        if len(bodies) != self.n:
            raise ScheduleError('need %d bodies' % self.n)
        jobs = [(lambda i=i: self._main(i, bodies[i])) for i in range(self.n)]
        threads = []
        if crew is not None:
            crew.start(jobs)
        else:
            threads = [threading.Thread(target=jobs[i], name='baton-%d' % i)
                       for i in range(self.n)]
            for t in threads:
                t.daemon = True
                t.start()
        try:
            nxt = self._decide(None)
        except ScheduleError as e:
            self._fail(e)
            raise
        self.current = nxt
        self.sems[nxt].release()
        if not self.done.wait(self.timeout):
            raise ScheduleError(self.diagnostic(
                'no progress for %.0f s: no enabled thread can run '
                '(deadlock)' % self.timeout))
        if self.error is not None:
            raise self.error
        if crew is not None:
            if not crew.wait(self.timeout):
                raise ScheduleError(self.diagnostic(
                    'a crew thread did not return'))
        for t in threads:
            t.join(self.timeout)
            if t.is_alive():
                raise ScheduleError(self.diagnostic(
                    'thread %s did not terminate' % t.name))
        return self.results

    def diagnostic(self, msg):
        lines = [msg, 'baton held by thread %r after %d decisions' % (
            self.current, len(self.trace))]
        frames = sys._current_frames()
        for i in range(self.n):
            lines.append('thread %d: finished=%r last point=%r' % (
                i, self.finished[i], self.at[i]))
            f = frames.get(self.idents[i])
            if f is not None:
                lines.extend(
                    '    ' + l.rstrip() for l in
                    traceback.format_stack(f)[-4:])
        return '\n'.join(lines)


class Crew(object):
    """n persistent real threads that execute one job each per `start`.
    They live as long as the (worker) process: never fork afterwards."""

    def __init__(self, n):
        self.n = n
        self.jobs = [None] * n
        self.go = [threading.Semaphore(0) for _ in range(n)]
        self.idle = [threading.Semaphore(0) for _ in range(n)]
        self.threads = [threading.Thread(
            target=self._loop, args=(i,), name='crew-%d' % i)
            for i in range(n)]
        for t in self.threads:
            t.daemon = True
            t.start()

    def _loop(self, i):
        while True:
            self.go[i].acquire()
            job = self.jobs[i]
            if job is None:
                return
            try:
                job()
            finally:
                self.jobs[i] = None
                self.idle[i].release()

    def start(self, jobs):
        if len(jobs) != self.n:
            raise ScheduleError('crew of %d got %d jobs' % (self.n, len(jobs)))
        for i, j in enumerate(jobs):
            self.jobs[i] = j
            self.go[i].release()

    def wait(self, timeout):
        ok = True
        for i in range(self.n):
            ok = self.idle[i].acquire(timeout=timeout) and ok
        return ok

    def close(self):
        for i in range(self.n):
            self.jobs[i] = None
            self.go[i].release()
        for t in self.threads:
            t.join(5.0)


# ---------------------------------------------------------------------
# exhaustive enumeration of schedules
# ---------------------------------------------------------------------

class PrefixChooser(object):
    """Forced choices, then the lowest enabled thread id."""

    def __init__(self, prefix, expected=None):
        self.prefix = tuple(prefix)
        self.expected = expected

    def __call__(self, step, enabled, me):
        if step < len(self.prefix):
            if self.expected is not None and step < len(self.expected) and \
                    self.expected[step] != enabled:
                raise ScheduleError(
                    'divergence while replaying prefix %r: decision %d had '
                    'enabled set %r, now %r (the code under test keeps state '
                    'from one execution to the next, or the harness is not '
                    'deterministic)' % (
                        self.prefix, step, self.expected[step], enabled))
            return self.prefix[step]
        return enabled[0]


def explore_all(execute, root=()):
    """
    execute(chooser) -> (trace, payload) runs ONE execution under `chooser`
    and returns the Baton trace [(enabled, chosen)] plus anything else.

    Generator over every complete schedule that extends `root`:
    yields (choices, payload).
    """
    stack = [(tuple(root), None)]
    while stack:
        prefix, expected = stack.pop()
        trace, payload = execute(PrefixChooser(prefix, expected))
        choices = tuple(c for _, c in trace)
        if choices[:len(prefix)] != prefix:
            raise ScheduleError(
                'execution did not follow prefix %r (got %r)' % (
                    prefix, choices))
        yield choices, payload
        enabled = tuple(e for e, _ in trace)
        for i in range(len(prefix), len(trace)):
            en, c = trace[i]
            for alt in reversed([t for t in en if t > c]):
                stack.append((choices[:i] + (alt,), enabled[:i + 1]))


def count_interleavings(steps):
    """multinomial coefficient: schedules of threads with the given numbers
    of steps when no thread influences another."""
    from math import factorial
    n = factorial(sum(steps))
    for s in steps:
        n //= factorial(s)
    return n


# ---------------------------------------------------------------------
# at most one pre-emption, line granularity
# ---------------------------------------------------------------------

class LineCounter(object):
    """sys.settrace hook of ONE thread: counts 'line' events in frames whose
    code satisfies `is_target`; at the k-th such event tracing is switched
    off for the thread and `on_hit(frame)` is called (once)."""

    def __init__(self, is_target, k, on_hit):
        self.is_target = is_target
        self.k = k
        self.on_hit = on_hit
        self.n = 0
        self.hit = None
        self.cache = {}

    def __call__(self, frame, event, arg):
        code = frame.f_code
        t = self.cache.get(code)
        if t is None:
            t = self.cache[code] = bool(self.is_target(code))
        if not t:
            return None
        return self.local

    def local(self, frame, event, arg):
        if event == 'line':
            self.n += 1
            if self.n == self.k:
                sys.settrace(None)
                self.hit = (frame.f_code.co_filename, frame.f_lineno)
                self.on_hit(frame)
                return None
        return self.local


def one_preemption(bodies, first, k, is_target, timeout=60.0, crew=None):
    """
    Thread `first` starts; just before its k-th traced line (k None: never)
    the baton goes to the other threads, which run to completion in index
    order; then `first` resumes.  Returns (results, lines counted in `first`
    before tracing stopped, (file, line) of the pre-emption or None, events).
    """
    n = len(bodies)

    def chooser(step, enabled, me):
        if me is None:
            return first
        others = [t for t in enabled if t != first]
        return others[0] if others else first

    b = Baton(n, chooser, horizon=4 * n + 8, timeout=timeout)
    lc = LineCounter(is_target, k, lambda frame: b.point(
        'line %s:%d' % (frame.f_code.co_filename.rsplit('/', 1)[-1],
                        frame.f_lineno)))
    b.tracers[first] = lc
    results = b.run(bodies, crew)
    return results, lc.n, lc.hit, list(b.events)
