# -*- coding: utf-8 -*-
"""
E1: prefix-trie BFS over a lexeme alphabet.

state      = a prefix (tuple of lexeme indexes) not dead for both sides
transition = prefix + one lexeme; implementation and reference both run on
             the rendered text
pruning    = a prefix is extended unless BOTH sides call it dead (see
             DESIGN.md 2.2); viability is never judged.  Prefixes ending in
             the contextual lexemes get/set are extended one more level
             regardless.
"""
from __future__ import unicode_literals

from mc.pool import pmap

LF = '\u23ce'   # the "line terminator" lexeme


def render(alphabet, prefix, sep=' '):
    return sep.join('\n' if alphabet[i] == LF else alphabet[i]
                    for i in prefix)


def explore(alphabet, depth, visit, merge, contextual=('get', 'set'),
            roots=((),)):
    """
    visit(text, prefix) -> (impl_dead, ref_dead)   [runs in workers, may
        accumulate into worker-local state created by `merge.new()`]
    merge: object with new() -> acc, and add(acc) called in the parent.
    Returns stats dict.
    """
    ctx = set(i for i, l in enumerate(alphabet) if l in contextual)
    layer = list(roots)
    stats = {'states': 0, 'transitions': 0, 'per_depth': []}
    for d in range(1, depth + 1):
        cands = [p + (i,) for p in layer for i in range(len(alphabet))]

        def work(items, idx):
            acc = merge.new()
            flags = []
            for p in items:
                text = render(alphabet, p)
                idead, rdead = visit(acc, text, p)
                flags.append(bool(idead and rdead and p[-1] not in ctx))
            return acc, flags
        results = pmap(work, cands)
        n = len(results)
        nxt = []
        for i, (acc, flags) in enumerate(results):
            merge.add(acc)
            mine = cands[i::n]
            for p, dead in zip(mine, flags):
                if not dead:
                    nxt.append(p)
        nxt.sort()
        stats['transitions'] += len(cands)
        stats['states'] += len(nxt)
        stats['per_depth'].append({'depth': d, 'executed': len(cands),
                                   'viable': len(nxt)})
        layer = nxt
    return stats
