# -*- coding: utf-8 -*-
"""
E4 - history explorer.

Pieces shared by the history based checks (C14, C15):

* `deep_fp(obj)`       structural fingerprint of an object graph by attribute
                       reflection (vars()), canonical with respect to object
                       identity: the n-th distinct "owned" object met during
                       the walk is numbered n, later references to it become
                       ('ref', n).  Returns a nested tuple that can be compared
                       with == (exact, no hashing) and digested with
                       `digest()` for cross process comparison.
* `global_fp()`        the same for the process-global state of the library:
                       every module global and every class attribute of every
                       loaded `calmjs.parse.*` module.  Returned as an ordered
                       list of (key, fingerprint) so that a difference can be
                       attributed to a module attribute.
* `HistorySpace`       index <-> history bijection for histories made of
                       <= k perturbing operations followed by one probing
                       operation (mixed radix, no materialisation).
* `fresh_child(fn)`    run `fn` in a child forked from the calling process and
                       return its (pickled) result.  A child forked from a
                       parent that has imported the scratch copy but executed
                       nothing is "a fresh process".
* `fork_trie(...)`     depth first exploration of all operation sequences with
                       one fork per trie node: the process that has executed
                       the prefix is the snapshot, each extension runs in its
                       own forked copy, so every sequence is executed in a
                       process that has executed exactly its own prefix.
* `confirm(...)`       re-run a suspicious history alone in a fresh child; if it
                       does not reproduce, look for the shortest suffix of the
                       worker's own sequence of histories that does.

Nothing here imports calmjs.parse at import time.
"""
from __future__ import unicode_literals

import functools
import hashlib
import os
import pickle
import re
import select
import signal
import sys
import time
import traceback
import types

from mc.boot import HarnessError

OWNED = 'calmjs.parse'
# classes and functions of these packages are expanded (attributes, closures);
# INSTANCES are expanded only for classes of OWNED, instances of anything else
# (ply lexers / parsers, loggers, ...) are represented by their class name
CODE_OWNED = ('calmjs.parse', 'ply')

_RE_TYPE = type(re.compile(''))
_SKIP_CLASS_KEYS = frozenset(['__dict__', '__weakref__'])
_SKIP_MODULE_KEYS = frozenset([
    '__builtins__', '__cached__', '__spec__', '__loader__', '__file__',
    '__path__', '__doc__', '__package__', '__name__'])
_DESCR_TYPES = (
    types.GetSetDescriptorType, types.MemberDescriptorType,
    types.WrapperDescriptorType, types.MethodDescriptorType,
    types.ClassMethodDescriptorType, types.MethodWrapperType)
_VIEW_TYPES = (type({}.keys()), type({}.values()), type({}.items()))

_clskey_cache = {}
_func_cache = {}


def clskey(t):
    k = _clskey_cache.get(t)
    if k is None:
        k = '%s.%s' % (getattr(t, '__module__', '?'),
                       getattr(t, '__qualname__', getattr(t, '__name__', '?')))
        _clskey_cache[t] = k
    return k


def _is_owned_name(modname):
    return isinstance(modname, str) and (
        modname == OWNED or modname.startswith(OWNED + '.'))


def _is_code_owned(modname):
    return isinstance(modname, str) and any(
        modname == p or modname.startswith(p + '.') for p in CODE_OWNED)


def _module_level(cls):
    m = sys.modules.get(getattr(cls, '__module__', None))
    if m is None:
        return False
    return getattr(m, getattr(cls, '__qualname__', ''), None) is cls


class _Walk(object):
    """One fingerprint computation (one identity numbering)."""

    def __init__(self):
        self.memo = {}       # id -> ordinal
        self.keep = []       # keep visited objects alive (ids stay unique)
        self.busy = set()    # ids of plain containers being expanded

    # -- numbering ---------------------------------------------------
    def _seen(self, o):
        n = self.memo.get(id(o))
        if n is not None:
            return ('ref', n)
        self.memo[id(o)] = len(self.memo)
        self.keep.append(o)
        return None

    # -- dispatch ----------------------------------------------------
    def fp(self, o):
        t = type(o)
        if t is str or o is None:
            return o
        if t is int:
            return ('i', o)
        if t is bool:
            return ('b', o)
        if t is float:
            return ('f', repr(o))
        if t is bytes:
            return ('y', o)
        if t is tuple:
            return ('T',) + tuple([self.fp(x) for x in o])
        if t is list:
            return self._container('L', o, o)
        if t is dict:
            return self._dict('D', o)
        return self._other(o, t)

    def _container(self, tag, o, items):
        i = id(o)
        if i in self.busy:
            return ('cycle', tag)
        self.busy.add(i)
        try:
            return (tag,) + tuple([self.fp(x) for x in items])
        finally:
            self.busy.discard(i)

    def _dict(self, tag, o):
        i = id(o)
        if i in self.busy:
            return ('cycle', tag)
        self.busy.add(i)
        try:
            return (tag,) + tuple(
                [(self.fp(k), self.fp(v)) for k, v in list(o.items())])
        finally:
            self.busy.discard(i)

    def _other(self, o, t):
        if t is set or t is frozenset:
            return ('S',) + tuple(sorted(
                [self.fp(x) for x in o], key=repr))
        if isinstance(o, type):
            return self.cls(o, deep=not _module_level(o))
        if t is types.FunctionType:
            return self.func(o)
        if t is types.MethodType:
            return ('M', self.fp(o.__self__),
                    getattr(o.__func__, '__qualname__', '?'))
        if t is types.BuiltinFunctionType:
            return ('bf', getattr(o, '__qualname__', repr(o)))
        if t is types.ModuleType:
            return ('mod', o.__name__)
        if t is functools.partial:
            return ('P', self.fp(o.func), self.fp(o.args),
                    self.fp(o.keywords))
        if t is _RE_TYPE:
            return ('re', o.pattern, o.flags)
        if t is property:
            return ('prop', self.fp(o.fget), self.fp(o.fset), self.fp(o.fdel))
        if t is staticmethod or t is classmethod:
            return (t.__name__, self.fp(o.__func__))
        if t is types.CellType:
            try:
                return ('cell', self.fp(o.cell_contents))
            except ValueError:
                return ('cell-empty',)
        if isinstance(o, _VIEW_TYPES):
            return ('view', t.__name__) + tuple(sorted(
                [self.fp(x) for x in o], key=repr))
        if isinstance(o, _DESCR_TYPES):
            return ('descr', t.__name__, getattr(o, '__name__', '?'))
        if t is types.GeneratorType:
            return ('gen', getattr(o, '__qualname__', '?'))
        if t is types.CodeType:
            return ('code', o.co_name, o.co_firstlineno)
        mod = getattr(t, '__module__', None)
        if mod == 'logging':
            return ('logger', getattr(o, 'name', '?'),
                    getattr(o, 'level', None))
        if isinstance(o, tuple):
            # namedtuples and other tuple subclasses
            return ('T:' + clskey(t),) + tuple([self.fp(x) for x in o])
        if isinstance(o, dict):
            s = self._seen(o)
            if s is not None:
                return s
            extra = ()
            if hasattr(o, 'default_factory'):
                extra = (self.fp(o.default_factory),)
            return self._dict('D:' + clskey(t), o) + extra
        if isinstance(o, list):
            s = self._seen(o)
            if s is not None:
                return s
            return self._container('L:' + clskey(t), o, list(o))
        if _is_owned_name(mod) or getattr(o, '_fp_owned_', False):
            return self.inst(o, t)
        # foreign object: identity free, shallow
        return ('X', clskey(t))

    # -- instances, classes, functions -------------------------------
    def inst(self, o, t):
        s = self._seen(o)
        if s is not None:
            return s
        try:
            d = vars(o)
        except TypeError:
            d = None
        if d is None:
            slots = []
            for c in t.__mro__:
                for name in getattr(c, '__slots__', ()) or ():
                    if hasattr(o, name):
                        slots.append((name, self.fp(getattr(o, name))))
            return ('O', clskey(t), ('slots',) + tuple(slots))
        return ('O', clskey(t), tuple(
            [(k, self.fp(v)) for k, v in list(d.items())]))

    def cls(self, c, deep):
        if not deep or not _is_code_owned(getattr(c, '__module__', None)):
            return ('C', clskey(c))
        s = self._seen(c)
        if s is not None:
            return s
        items = []
        for k in sorted(vars(c)):
            if k in _SKIP_CLASS_KEYS:
                continue
            items.append((k, self.fp(vars(c)[k])))
        return ('C*', clskey(c), tuple([clskey(b) for b in c.__bases__]),
                tuple(items))

    def func(self, f):
        if not _is_code_owned(getattr(f, '__module__', None)):
            return ('F', getattr(f, '__module__', '?'),
                    getattr(f, '__qualname__', '?'))
        s = self._seen(f)
        if s is not None:
            return s
        code = f.__code__
        simple = (f.__closure__ is None and f.__defaults__ is None and
                  f.__kwdefaults__ is None and not f.__dict__)
        if simple:
            # Every mutable slot of such a function is compared by identity
            # with what was seen when the cached value was computed, so the
            # cache cannot hide a change.
            c = _func_cache.get(id(f))
            if (c is not None and c[0] is f and c[1] is code and
                    c[2] is f.__doc__ and c[3] is f.__qualname__ and
                    c[4] is f.__name__ and c[5] is f.__module__):
                return c[6]
            val = ('F*', f.__module__, f.__qualname__, f.__name__,
                   code.co_firstlineno, f.__doc__, None, None, (), None)
            _func_cache[id(f)] = (f, code, f.__doc__, f.__qualname__,
                                  f.__name__, f.__module__, val)
            return val
        clo = ()
        if f.__closure__:
            clo = tuple([self.fp(c) for c in f.__closure__])
        return ('F*', f.__module__, f.__qualname__, f.__name__,
                code.co_firstlineno, f.__doc__,
                self.fp(f.__defaults__), self.fp(f.__kwdefaults__), clo,
                self.fp(f.__dict__) if f.__dict__ else None)


def deep_fp(obj):
    """Structural, identity free fingerprint (nested tuple)."""
    return _Walk().fp(obj)


def digest(fp):
    return hashlib.sha1(repr(fp).encode('utf-8')).hexdigest()[:16]


def owned_modules(skip=()):
    names = []
    for name in sorted(sys.modules):
        if not _is_owned_name(name):
            continue
        if '.tests' in name:
            continue
        if any(s in name for s in skip):
            continue
        if sys.modules[name] is None:
            continue
        names.append(name)
    return names


def global_fp(skip=(), only=None, extra=()):
    """
    [(key, fingerprint)] over every global of every loaded calmjs.parse.*
    module; classes defined in a module are expanded (all class attributes),
    imported names are walked as values.  One identity numbering for the whole
    walk, in sorted (module, attribute) order.

    skip   substrings of module names to leave out (e.g. the large, pure data
           lextab_/yacctab_ modules for the per-history fingerprint)
    only   restrict to these module names
    extra  further module names to include (e.g. 'ply.lex', 'ply.yacc')
    """
    w = _Walk()
    out = []
    names = owned_modules(skip)
    if only is not None:
        names = [n for n in names if n in only]
    names = names + [n for n in extra if sys.modules.get(n) is not None]
    for name in names:
        m = sys.modules[name]
        d = vars(m)
        for k in sorted(d):
            if k in _SKIP_MODULE_KEYS:
                continue
            v = d[k]
            if isinstance(v, type) and getattr(v, '__module__', None) == name:
                out.append((name + ':' + k, w.cls(v, deep=True)))
            else:
                out.append((name + ':' + k, w.fp(v)))
    return out


def first_difference(a, b):
    """key of the first entry that differs between two global_fp() lists."""
    da = dict(a)
    db = dict(b)
    for k, v in a:
        if k not in db:
            return k + ' (removed)'
        if db[k] != v:
            return k
    for k, v in b:
        if k not in da:
            return k + ' (added)'
    return None


def describe_difference(a, b, limit=160):
    """A short textual description of where two nested tuples differ."""
    path = []
    while (isinstance(a, tuple) and isinstance(b, tuple)
            and len(a) == len(b)):
        for i, (x, y) in enumerate(zip(a, b)):
            if x != y:
                path.append(i)
                a, b = x, y
                break
        else:
            break
    return 'at %s: %s != %s' % (
        '.'.join(str(p) for p in path), repr(a)[:limit], repr(b)[:limit])


# ---------------------------------------------------------------------
# history index space
# ---------------------------------------------------------------------

class HistorySpace(object):
    """
    Histories = p_1 .. p_k, q  with  0 <= k <= maxlen, p_i in range(nper),
    q in range(nprobe).  Ordered by k, then lexicographically; `at(i)` maps an
    index to (tuple of perturbing indices, probe index).
    """

    def __init__(self, nper, nprobe, maxlen):
        self.nper = nper
        self.nprobe = nprobe
        self.maxlen = maxlen
        self.by_len = [nper ** k * nprobe for k in range(maxlen + 1)]
        self.total = sum(self.by_len)

    def at(self, idx):
        if idx < 0 or idx >= self.total:
            raise IndexError(idx)
        k = 0
        while idx >= self.by_len[k]:
            idx -= self.by_len[k]
            k += 1
        idx, q = divmod(idx, self.nprobe)
        ps = []
        for _ in range(k):
            idx, p = divmod(idx, self.nper)
            ps.append(p)
        ps.reverse()
        return tuple(ps), q

    def index(self, ps, q):
        k = len(ps)
        base = sum(self.by_len[:k])
        v = 0
        for p in ps:
            v = v * self.nper + p
        return base + v * self.nprobe + q

    def blocks(self, size):
        lo = 0
        out = []
        while lo < self.total:
            hi = min(self.total, lo + size)
            out.append((lo, hi))
            lo = hi
        return out


# ---------------------------------------------------------------------
# processes
# ---------------------------------------------------------------------

def _read_all(fd, deadline):
    chunks = []
    while True:
        if deadline is not None:
            left = deadline - time.time()
            if left <= 0:
                return None
            r, _, _ = select.select([fd], [], [], left)
            if not r:
                return None
        b = os.read(fd, 1 << 16)
        if not b:
            break
        chunks.append(b)
    return b''.join(chunks)


def spawn(fn, *args):
    """Fork a child that evaluates fn(*args); returns a handle for
    `collect`.  Only from a single threaded process."""
    import threading
    if threading.active_count() != 1:
        raise HarnessError('fork requested while %d threads exist' %
                           threading.active_count())
    sys.stdout.flush()
    sys.stderr.flush()
    r, w = os.pipe()
    pid = os.fork()
    if pid == 0:
        code = 0
        try:
            os.close(r)
            try:
                payload = pickle.dumps(('ok', fn(*args)),
                                       protocol=pickle.HIGHEST_PROTOCOL)
            except BaseException:
                code = 3
                payload = pickle.dumps(('err', traceback.format_exc()))
            with os.fdopen(w, 'wb') as fd:
                fd.write(payload)
        finally:
            os._exit(code)
    os.close(w)
    return pid, r


def collect(handle, timeout=120.0):
    pid, r = handle
    try:
        data = _read_all(r, time.time() + timeout if timeout else None)
    finally:
        os.close(r)
    if data is None:
        try:
            os.kill(pid, signal.SIGKILL)
        except OSError:
            pass
        os.waitpid(pid, 0)
        raise HarnessError('forked child exceeded %.0f s' % timeout)
    _, st = os.waitpid(pid, 0)
    if not data:
        raise HarnessError('forked child died (status %r)' % st)
    kind, val = pickle.loads(data)
    if kind != 'ok':
        raise HarnessError('forked child raised\n%s' % val)
    return val


def fresh_child(fn, *args, **kw):
    """
    Run fn(*args) in a forked child of the calling (single threaded) process
    and return the result.  The child never returns to the caller's code.
    """
    return collect(spawn(fn, *args), kw.pop('timeout', 120.0))


def fresh_children(fn, arglist, width=32, timeout=300.0):
    """[fn(*a) for a in arglist], each in its own child forked from the
    calling process; up to `width` children alive at a time (the caller does
    nothing but wait meanwhile, so all children start from the same state)."""
    out = []
    arglist = list(arglist)
    for lo in range(0, len(arglist), width):
        handles = [spawn(fn, *a) for a in arglist[lo:lo + width]]
        for h in handles:
            out.append(collect(h, timeout))
    return out


def fork_trie(nops, maxdepth, step, prefix=(), timeout=600.0, width=32):
    """
    Explore every sequence over range(nops) that extends `prefix` up to length
    `maxdepth`, one fork per trie node.  The calling process must already be in
    the state "has executed prefix".  `step(seq)` is called in the forked copy
    and must execute the LAST operation of `seq` (the earlier ones have been
    executed by its ancestors) and return a picklable record or None.

    The children of the last level are forked `width` at a time (they all
    start from the same state of the waiting parent); inner levels one at a
    time, to bound the number of live processes.

    Returns (number of nodes visited, [records that were not None]).
    """
    if len(prefix) >= maxdepth:
        return 0, []

    def node(seq):
        rec = step(seq)
        n, recs = fork_trie(nops, maxdepth, step, seq, timeout, width)
        return 1 + n, ([rec] if rec is not None else []) + recs
    seqs = [(prefix + (i,),) for i in range(nops)]
    last = len(prefix) == maxdepth - 1
    total = 0
    out = []
    for n, recs in fresh_children(
            node, seqs, width=width if last else 1, timeout=timeout):
        total += n
        out.extend(recs)
    return total, out


# ---------------------------------------------------------------------
# confirmation of suspicious histories
# ---------------------------------------------------------------------

def confirm(run_sequence, failing, predecessors, same, max_tries=24):
    """
    run_sequence(list_of_histories) -> set of signatures seen while running
    the histories one after the other in ONE process (it is called here inside
    a fresh child).  `failing` is the history that showed signature `same` in
    a worker, `predecessors` the histories the same worker had executed before
    it (oldest first).

    Returns ('alone', [failing])          reproduces in a fresh process
            ('sequence', [h.., failing])  only reproduces after predecessors
                                          (shortest suffix found, then single
                                          predecessors tried)
            ('lost', None)                does not reproduce at all
    """
    def reproduces(hs):
        return same in fresh_child(run_sequence, hs)

    if reproduces([failing]):
        return 'alone', [failing]
    tries = 0
    n = 1
    found = None
    while tries < max_tries:
        suffix = predecessors[-n:] if n else []
        tries += 1
        if reproduces(list(suffix) + [failing]):
            found = list(suffix)
            break
        if n >= len(predecessors):
            break
        n = min(len(predecessors), n * 2)
    if found is None:
        return 'lost', None
    # try to explain it with a single predecessor
    for h in reversed(found[-max_tries:]):
        if reproduces([h, failing]):
            return 'sequence', [h, failing]
    return 'sequence', found + [failing]
