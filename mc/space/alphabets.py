# -*- coding: utf-8 -*-
"""Lexeme alphabets (ordered simplest first)."""
from __future__ import unicode_literals

LF = '\u23ce'

# the general alphabet A (48 lexemes)
A = [
    'a', '1', "'s'", '/r/', '/', '/=', '+', '++', '=', '(', ')', '{', '}',
    '[', ']', ';', ',', '.', ':', '?', LF, '!', '<', 'in', 'typeof', 'new',
    'this', 'function', 'return', 'break', 'var', 'if', 'else', 'for',
    'while', 'do', 'switch', 'case', 'default', 'try', 'catch', 'finally',
    'throw', 'with', 'get', '/*c*/', '//c\n', '/*\n*/',
]

# a 32-lexeme reduction for one more level
A32 = [
    'a', '1', '/r/', '/', '+', '++', '=', '(', ')', '{', '}', '[', ']', ';',
    ',', '.', ':', '?', LF, 'in', 'new', 'function', 'return', 'var', 'if',
    'else', 'for', 'while', 'do', 'get', 'typeof', 'this',
]

A_EXPR = [
    'a', '1', '/', '+', '++', '=', '(', ')', '[', ']', ',', '.', '?', ':',
    'in', 'new', LF, '{', '}', 'function',
]

A_STMT = [
    'a', ';', '{', '}', '(', ')', LF, 'if', 'else', 'for', 'var', 'in', '=',
    'do', 'while', 'return', 'function', ':', 'try', 'catch', 'finally',
    'switch', 'case', 'default', 'break', ',',
]

# ASI: tokens that can end / begin a statement, restricted keywords, ++,
# ( [ / and the for-header pieces, with every kind of line break
A_ASI = [
    'a', '1', LF, ';', '++', '(', ')', '[', ']', '/', '{', '}', 'return',
    'break', 'continue', 'throw', 'var', '=', 'if', 'else', 'do', 'while',
    'for', '+', '/*\n*/', '/*c*/', '//c\n', 'function',
    # a token that SPANS a line break (string with a line continuation): what
    # follows it on its last line is not preceded by a line terminator
    "'x\\\ny'",
]
A_ASI_CORE = [
    'a', LF, ';', '++', '(', ')', '{', '}', 'return', 'break', 'throw',
    'var', '=', 'do', 'while', 'for', '/*\n*/', '/*c*/', '//c\n', '/', '[',
    ']', '+',
]
