# -*- coding: utf-8 -*-
"""
S2xLeaf: the adjacent-leaf product C02 names explicitly: every grammatical
slot pair x every (left spelling, right spelling) from a catalogue chosen to
cover each (last character class, first character class, token kind).
"""
from __future__ import unicode_literals

from mc.space import grammar as G
from mc.space.grammar import (
    F, E, S, Built, build, PRIMARY, MEMBER, UNARY, LHS, ASSIGN, COMMA, ADD,
    MULT, REL, SHIFT, EQ, POSTFIX, SEMI)

LEAVES = [
    # identifiers
    ('a',), ('$',), ('_a',), ('a1',), ('\xe9',), ('a1\xe9',), ('\u03c0x',),
    # identifiers ENDING in a combining mark (Mn, Mc) / connector punctuation
    ('a\u0301',), ('a\u0903',), ('a\u203f',),
    # numbers
    ('1',), ('1.',), ('.5',), ('1.5',), ('1e3',), ('0x1f',), ('0',),
    # strings: plain, double, escape kinds, continuation, empty
    ("'s'",), ('"s"',), ("'it\\'s'",), ("'\\x41\\u0041\\n'",),
    ("'a\\\nb'",), ("''",), ("'a\\x0cb'",),
    # RAW form feed / next line / file separator inside a literal (Python's
    # str.splitlines treats them as line boundaries, ES5 does not)
    ("'a\x0cb'",), ("'\x85'",), ("'a\\\x1cb'",),
    # regexes
    ('/r/',), ('/r/g',), ('/[/]/',), ('/=/',),
    # words
    ('this',), ('true',), ('null',),
    # bracketed primaries
    ('(', 'a', ')'), ('[', ']'), ('{', '}'),
    ('function', '(', ')', '{', '}'),
]
# a reduced catalogue for the big three-slot products
LEAVES_SMALL = [('a',), ('$',), ('\xe9',), ('a\u0301',), ('1',), ('1.',), ('.5',), ("'s'",),
                ("'a\x0cb'",),
                ('/r/',), ('/r/g',), ('/=/',), ('this',), ('(', 'a', ')'), ('[', ']'),
                ('{', '}')]

PROPNAMES = [('p',), ('if',), ('get',), ("'p'",), ('"p"',), ('1',), ('.5',),
             ('0x1f',), ('1.',)]


def extra_forms():
    fs = []
    l, r = E(UNARY, 'a'), E(UNARY, 'b')
    for nm, spec, lv in [
            ('adj-plus-preinc', '$l + ++ $r', ADD),
            ('adj-minus-predec', '$l - -- $r', ADD),
            ('adj-plus-plus', '$l + + $r', ADD),
            ('adj-minus-minus', '$l - - $r', ADD),
            ('adj-plus-minus', '$l + - $r', ADD),
            ('adj-minus-plus', '$l - + $r', ADD),
            ('adj-lt-not-predec', '$l < ! -- $r', REL),
            ('adj-div-div', '$l / $r / $l', MULT),
            ('adj-mod', '$l % $r', MULT),
    ]:
        fs.append(F(nm, spec, lv, l=E(lv, 'a'), r=E(UNARY, 'b')))
    for nm, spec, lv in [
            ('adj-postinc-plus', '$l ++ + $r', ADD),
            ('adj-postdec-minus', '$l -- - $r', ADD),
            ('adj-postdec-gt', '$l -- > $r', REL),
            ('adj-postinc-div', '$l ++ / $r', MULT),
    ]:
        fs.append(F(nm, spec, lv, l=E(LHS, 'a'), r=E(lv + 1, 'b')))
    for nm, spec in [
            ('adj-pos-pos', '+ + $r'), ('adj-neg-neg', '- - $r'),
            ('adj-pos-preinc', '+ ++ $r'), ('adj-neg-predec', '- -- $r'),
            ('adj-typeof-typeof', 'typeof typeof $r'),
            ('adj-not-not', '! ! $r'), ('adj-void-neg', 'void - $r'),
            ('adj-typeof-pos', 'typeof + $r'), ('adj-delete', 'delete $r'),
            ('adj-preinc-pos', '++ + $r'), ('adj-neg-pos', '- + $r')]:
        fs.append(F(nm, spec, UNARY, r=E(UNARY, 'b')))
    for op, lv in [('>>', SHIFT), ('>', REL), ('<=', REL), ('>=', REL),
                   ('!=', EQ), ('!==', EQ)]:
        fs.append(F('bin' + op, '$l ' + op + ' $r', lv, l=E(lv, 'a'),
                    r=E(lv + 1, 'b')))
    for op in ['*=', '%=', '-=', '<<=', '>>=', '&=', '^=', '|=']:
        fs.append(F('assign' + op, '$t ' + op + ' $v', ASSIGN, t=E(LHS, 'a'),
                    v=E(ASSIGN, 'b')))
    return fs


def stmt_extra_forms():
    fs = []
    fs.append(F('case-e', 'switch ( x ) { case $e : $r ;; }',
                e=E(COMMA, 'a'), r=E(COMMA, 'b', stmt_start=True)))
    fs.append(F('stmt-pair', '$l ;; $r ;;', l=E(COMMA, 'a', stmt_start=True),
                r=E(COMMA, 'b', stmt_start=True)))
    fs.append(F('if-e-stmt', 'if ( $l ) $r ;;', l=E(COMMA, 'a'),
                r=E(COMMA, 'b', stmt_start=True)))
    fs.append(F('else-stmt', 'if ( x ) $l ;; else $r ;;',
                l=E(COMMA, 'a', stmt_start=True),
                r=E(COMMA, 'b', stmt_start=True)))
    fs.append(F('do-stmt', 'do $l ;; while ( $r ) ;;',
                l=E(COMMA, 'a', stmt_start=True), r=E(COMMA, 'b')))
    fs.append(F('while-stmt', 'while ( $l ) $r ;;', l=E(COMMA, 'a'),
                r=E(COMMA, 'b', stmt_start=True)))
    fs.append(F('with-stmt', 'with ( $l ) $r ;;', l=E(COMMA, 'a'),
                r=E(COMMA, 'b', stmt_start=True)))
    fs.append(F('for-stmt', 'for ( ; ; ) $r ;;',
                r=E(COMMA, 'b', stmt_start=True)))
    fs.append(F('forin-stmt', 'for ( $l in $r ) $l ;;',
                l=E(LHS, 'a', noin=True), r=E(COMMA, 'b')))
    fs.append(F('label-stmt', 'l : $r ;;', r=E(COMMA, 'b', stmt_start=True)))
    fs.append(F('return-throw', 'return $l ;; throw $r ;;', l=E(COMMA, 'a'),
                r=E(COMMA, 'b')))
    fs.append(F('block-stmt', '{ $l ;; } $r ;;',
                l=E(COMMA, 'a', stmt_start=True),
                r=E(COMMA, 'b', stmt_start=True)))
    fs.append(F('fdecl-stmt', 'function f ( ) { $l ;; } $r ;;',
                l=E(COMMA, 'a', stmt_start=True),
                r=E(COMMA, 'b', stmt_start=True)))
    fs.append(F('var-stmt', 'var v = $l ;; $r ;;', l=E(ASSIGN, 'a'),
                r=E(COMMA, 'b', stmt_start=True)))
    fs.append(F('empty-loop-bodies',
                'while ( $l ) ;; for ( ; ; ) ;; if ( $r ) ;; else ;;',
                l=E(COMMA, 'a'), r=E(COMMA, 'b')))
    fs.append(F('empty-bodies-2',
                'with ( $l ) ;; l : ;; for ( x in $r ) ;; do ;; while ( x ) ;;',
                l=E(COMMA, 'a'), r=E(COMMA, 'b')))
    fs.append(F('empty-then-block', 'if ( $l ) ;; { $r ;; }',
                l=E(COMMA, 'a'), r=E(COMMA, 'b', stmt_start=True)))
    fs.append(F('while-empty-then-block', 'while ( $l ) ;; { $r ;; }',
                l=E(COMMA, 'a'), r=E(COMMA, 'b', stmt_start=True)))
    fs.append(F('empties', ';; ;; $l ;; ;; { ;; } { ;; ;; $r ;; ;; }',
                l=E(COMMA, 'a', stmt_start=True),
                r=E(COMMA, 'b', stmt_start=True)))
    return fs


def leaf(b):
    return Built(tuple(b), PRIMARY, 'leaf')


def programs(full=True):
    """list of (lexemes, description); de-duplicated.  full=False uses the
    reduced leaf catalogue everywhere (quick tier)."""
    seen = {}
    eforms = [f for f in G.EXPR_FORMS if not f.name.startswith('lit-')] + \
        extra_forms()
    sforms = G.STMT_FORMS + stmt_extra_forms()
    L = [leaf(x) for x in (LEAVES if full else LEAVES_SMALL)]
    LS = [leaf(x) for x in LEAVES_SMALL]
    expr_stmt = G.STMT_BY_NAME['expr']

    def add(lex, desc):
        if lex not in seen:
            seen[lex] = desc

    def fills(form, leaves_for):
        eslots = [i for i in form.slots if form.template[i].kind == 'E']
        if not eslots:
            yield {}
            return
        if len(eslots) == 1:
            for a in leaves_for(1):
                yield {eslots[0]: a}
            return
        big = leaves_for(len(eslots))
        if len(eslots) == 2:
            for a in big:
                for b in big:
                    yield {eslots[0]: a, eslots[1]: b}
            return
        # three or more: first two vary over the reduced catalogue, others
        # keep their fillers; then the last two
        for a in LS:
            for b in LS:
                yield {eslots[0]: a, eslots[1]: b}
                yield {eslots[-2]: a, eslots[-1]: b}

    def lf(n):
        return L if n <= 2 else LS
    for f in eforms:
        for fill in fills(f, lf):
            b = Built(build(f, fill), f.level, f.name)
            st = build(expr_stmt, {expr_stmt.slots[0]: b})
            add(st, 'leaf:' + f.name)
    for f in sforms:
        for fill in fills(f, lf):
            add(build(f, fill), 'leaf:' + f.name)
    # property names x values
    for nm in PROPNAMES:
        for v in (LEAVES if full else LEAVES_SMALL):
            for tpl in ('x = { %s : $v } ;;', 'x = { %s : $v , %s : $v } ;;',
                        'x = { get %s ( ) { return $v ;; } } ;;',
                        'x = { set %s ( v ) { ( $v ) ;; } } ;;'):
                spec = tpl.replace('%s', ' '.join(nm).replace(' ', '\x00'))
                f = F('prop', spec.replace(';;', '\x01'), None,
                      v=E(ASSIGN, 'a'))
                tplx = []
                for t in f.template:
                    if isinstance(t, str):
                        t = t.replace('\x00', ' ')
                        if t == '\x01':
                            t = SEMI
                    tplx.append(t)
                f.template = tplx
                fill = dict((i, leaf(v)) for i in f.slots)
                add(build(f, fill), 'leaf:prop')
    return sorted(seen.items(), key=lambda kv: (len(kv[0]), kv[0]))
