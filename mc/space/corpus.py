# -*- coding: utf-8 -*-
"""
S0: every string literal found in the repository's own test modules (taken
from the scratch copy), de-duplicated, sorted.  Each is a candidate input:
programs, fragments and error cases alike.
"""
from __future__ import unicode_literals

import ast
import os
import textwrap


def harvest(limit_len=4000):
    import calmjs.parse
    root = os.path.join(os.path.dirname(calmjs.parse.__file__), 'tests')
    found = set()
    for name in sorted(os.listdir(root)):
        if not name.endswith('.py'):
            continue
        with open(os.path.join(root, name), 'rb') as fd:
            src = fd.read().decode('utf-8')
        try:
            tree = ast.parse(src)
        except SyntaxError:
            continue
        for node in ast.walk(tree):
            if isinstance(node, ast.Constant) and isinstance(node.value, str):
                s = node.value
                for v in (s, textwrap.dedent(s), textwrap.dedent(s).strip()):
                    if 0 < len(v) <= limit_len:
                        found.add(v)
    return sorted(found)
