# -*- coding: utf-8 -*-
"""L: layout kinds used between lexemes."""
from __future__ import unicode_literals

LAYOUTS = [
    ('LF', '\n'), ('SP', ' '), ('ML-COMMENT', ' /*\n*/ '),
    ('LF-COMMENT', '\n/*c*/ '), ('COMMENT-LF', ' /*c*/\n'),
    ('LINE-COMMENT', ' //c\n'), ('CR', '\r'), ('CRLF', '\r\n'),
    ('LS', '\u2028'), ('PS', '\u2029'), ('COMMENT', ' /*c*/ '),
]
BY_NAME = dict(LAYOUTS)
