# -*- coding: utf-8 -*-
"""L: layout kinds used between lexemes."""
from __future__ import unicode_literals

LAYOUTS = [
    ('LF', '\n'), ('SP', ' '), ('ML-COMMENT', ' /*\n*/ '),
    ('LF-COMMENT', '\n/*c*/ '), ('COMMENT-LF', ' /*c*/\n'),
    ('LINE-COMMENT', ' //c\n'), ('CR', '\r'), ('CRLF', '\r\n'),
    ('LS', '\u2028'), ('PS', '\u2029'), ('COMMENT', ' /*c*/ '),
    # a comment whose only line terminator is not LF
    ('LS-COMMENT', ' /*x\u2028y*/ '), ('PS-COMMENT', ' /*\u2029*/ '),
    ('CR-COMMENT', ' /*\r*/ '),
]
BY_NAME = dict(LAYOUTS)
