# -*- coding: utf-8 -*-
"""
S2(k): all programs with <= k constructors over the generator grammar.

A *form* is a template: a list of lexemes and slots.  An expression form has
a precedence level; an expression slot has a minimum level and the generator
parenthesises a child whose level is too low (and a child containing a bare
`in` inside a NoIn slot, and an expression statement that would start with
`{` or `function`), so every generated text is derivable by construction.
Unfilled slots take minimal fillers (identifiers a b c d / `x;`).

A program is a tuple of lexemes (str); statement terminators are instances of
`Term` (a str subclass) so that C04 can drop them selectively.
"""
from __future__ import unicode_literals

import itertools

# precedence levels
PRIMARY, MEMBER, CALL, NEWNOARGS, POSTFIX, UNARY = 20, 19, 18, 17, 16, 15
MULT, ADD, SHIFT, REL, EQ, BAND, BXOR, BOR, LAND, LOR = (
    14, 13, 12, 11, 10, 9, 8, 7, 6, 5)
COND, ASSIGN, COMMA = 4, 3, 2
LHS = NEWNOARGS


class Term(str):
    """a statement-terminating semicolon"""
    __slots__ = ()


SEMI = Term(';')


class Slot(object):
    def __init__(self, kind, level=COMMA, noin=False, filler=None,
                 newcallee=False, stmt_start=False):
        self.kind = kind          # 'E' expression / 'S' statement
        self.level = level
        self.noin = noin
        self.filler = filler
        self.newcallee = newcallee
        self.stmt_start = stmt_start


def E(level=ASSIGN, filler='a', **kw):
    return Slot('E', level, filler=filler, **kw)


def S(filler=None):
    return Slot('S', filler=filler or ('x', SEMI))


class Form(object):
    def __init__(self, name, template, level=None, kind=None):
        self.name = name
        self.template = template
        self.level = level
        self.kind = kind or ('E' if level is not None else 'S')
        self.slots = [i for i, t in enumerate(template)
                      if isinstance(t, Slot)]

    def __repr__(self):
        return 'Form(%s)' % self.name


def _split(s):
    return s.split()


def F(name, spec, level=None, **slots):
    """spec: space separated lexemes; $x refers to slots[x]; ';' at statement
    end written as ';;' becomes a Term."""
    tpl = []
    for w in _split(spec):
        if w.startswith('$'):
            tpl.append(slots[w[1:]])
        elif w == ';;':
            tpl.append(SEMI)
        else:
            tpl.append(w)
    return Form(name, tpl, level)


# ---------------------------------------------------------------- expressions
BINOPS = [('*', MULT), ('/', MULT), ('%', MULT), ('+', ADD), ('-', ADD),
          ('<<', SHIFT), ('>>>', SHIFT), ('<', REL), ('instanceof', REL),
          ('in', REL), ('==', EQ), ('===', EQ), ('&', BAND), ('^', BXOR),
          ('|', BOR), ('&&', LAND), ('||', LOR)]
UNOPS = ['delete', 'void', 'typeof', '++', '--', '+', '-', '~', '!']
ASSIGNOPS = ['=', '/=', '>>>=', '+=']


def expression_forms():
    fs = []
    for lex, nm in [('this', 'this'), ('a', 'ident'), ('1', 'number'),
                    ("'s'", 'string'), ('/r/', 'regex'), ('true', 'true'),
                    ('null', 'null')]:
        fs.append(Form('lit-' + nm, [lex], PRIMARY))
    fs.append(F('group', '( $e )', PRIMARY, e=E(COMMA)))
    # arrays with every elision layout
    for nm, spec in [
            ('arr-empty', '[ ]'), ('arr-1', '[ $a ]'), ('arr-2', '[ $a , $b ]'),
            ('arr-e1', '[ , ]'), ('arr-e2', '[ , , ]'),
            ('arr-1-trail', '[ $a , ]'), ('arr-1-e1', '[ $a , , ]'),
            ('arr-e1-1', '[ , $a ]'), ('arr-1-e1-1', '[ $a , , $b ]'),
            ('arr-e2-1', '[ , , $a ]'), ('arr-1-e2-1', '[ $a , , , $b ]')]:
        fs.append(F(nm, spec, PRIMARY, a=E(ASSIGN, 'a'), b=E(ASSIGN, 'b')))
    # objects with each property kind
    for nm, spec in [
            ('obj-empty', '{ }'), ('obj-1', '{ p : $a }'),
            ('obj-2', '{ p : $a , q : $b }'), ('obj-trail', '{ p : $a , }'),
            ('obj-str', "{ 'p' : $a }"), ('obj-num', '{ 1 : $a }'),
            ('obj-kw', '{ if : $a }'), ('obj-kw-value', '{ p : $a . throw }'),
            ('obj-getname', '{ get : $a }'),
            ('obj-get', '{ get p ( ) { $s } }'),
            ('obj-get-empty', '{ get p ( ) { } }'),
            ('obj-set', '{ set p ( v ) { $s } }'),
            ('obj-get-kw', '{ get if ( ) { } }'),
            ('obj-get-get', '{ get get ( ) { } }'),
            ('obj-get-set', '{ get p ( ) { } , set p ( v ) { } }'),
            ('obj-get-str', "{ get 'p' ( ) { } }"),
            ('obj-set-num', '{ set 1 ( v ) { } }')]:
        fs.append(F(nm, spec, PRIMARY, a=E(ASSIGN, 'a'), b=E(ASSIGN, 'b'),
                    s=S()))
    for nm, spec in [
            ('fexpr', 'function ( ) { }'), ('fexpr-body', 'function ( ) { $s }'),
            ('fexpr-named', 'function f ( ) { $s }'),
            ('fexpr-1', 'function ( p ) { $s }'),
            ('fexpr-2', 'function f ( p , q ) { $s $t }')]:
        fs.append(F(nm, spec, MEMBER, s=S(), t=S(('y', SEMI))))
    fs.append(F('dot', '$o . p', MEMBER, o=E(CALL, 'a')))
    fs.append(F('dot-kw', '$o . if', MEMBER, o=E(CALL, 'a')))
    fs.append(F('dot-kw-return', '$o . return', MEMBER, o=E(CALL, 'a')))
    fs.append(F('bracket', '$o [ $e ]', MEMBER, o=E(CALL, 'a'),
                e=E(COMMA, 'b')))
    fs.append(F('new', 'new $c', NEWNOARGS, c=E(MEMBER, 'a', newcallee=True)))
    fs.append(F('new-0', 'new $c ( )', MEMBER, c=E(MEMBER, 'a')))
    fs.append(F('new-1', 'new $c ( $a )', MEMBER, c=E(MEMBER, 'a'),
                a=E(ASSIGN, 'b')))
    fs.append(F('call-0', '$f ( )', CALL, f=E(CALL, 'a')))
    fs.append(F('call-1', '$f ( $a )', CALL, f=E(CALL, 'a'),
                a=E(ASSIGN, 'b')))
    fs.append(F('call-2', '$f ( $a , $b )', CALL, f=E(CALL, 'a'),
                a=E(ASSIGN, 'b'), b=E(ASSIGN, 'c')))
    fs.append(F('post-inc', '$x ++', POSTFIX, x=E(LHS, 'a')))
    fs.append(F('post-dec', '$x --', POSTFIX, x=E(LHS, 'a')))
    for op in UNOPS:
        fs.append(F('unary' + op, op + ' $x', UNARY, x=E(UNARY, 'a')))
    for op, lv in BINOPS:
        fs.append(F('bin' + op, '$l ' + op + ' $r', lv, l=E(lv, 'a'),
                    r=E(lv + 1, 'b')))
    fs.append(F('cond', '$p ? $c : $d', COND, p=E(LOR, 'a'), c=E(ASSIGN, 'b'),
                d=E(ASSIGN, 'c')))
    for op in ASSIGNOPS:
        fs.append(F('assign' + op, '$t ' + op + ' $v', ASSIGN, t=E(LHS, 'a'),
                    v=E(ASSIGN, 'b')))
    fs.append(F('comma', '$l , $r', COMMA, l=E(COMMA, 'a'), r=E(ASSIGN, 'b')))
    return fs


# ----------------------------------------------------------------- statements
def statement_forms():
    fs = []
    fs.append(F('block-empty', '{ }'))
    fs.append(F('block-1', '{ $s }', s=S()))
    fs.append(F('block-2', '{ $s $t }', s=S(), t=S(('y', SEMI))))
    fs.append(F('var', 'var v ;;'))
    fs.append(F('var-init', 'var v = $e ;;', e=E(ASSIGN, 'a')))
    fs.append(F('var-2', 'var v , w ;;'))
    fs.append(F('var-2-init', 'var v = $e , w = $f ;;', e=E(ASSIGN, 'a'),
                f=E(ASSIGN, 'b')))
    fs.append(F('empty', ';;'))
    fs.append(F('expr', '$e ;;', e=E(COMMA, 'a', stmt_start=True)))
    fs.append(F('if', 'if ( $e ) $s', e=E(COMMA, 'a'), s=S()))
    fs.append(F('if-else', 'if ( $e ) $s else $t', e=E(COMMA, 'a'), s=S(),
                t=S(('y', SEMI))))
    fs.append(F('do', 'do $s while ( $e ) ;;', e=E(COMMA, 'a'), s=S()))
    fs.append(F('while', 'while ( $e ) $s', e=E(COMMA, 'a'), s=S()))
    inits = [('0', ''), ('e', '$i'), ('v', 'var v'), ('vi', 'var v = $j'),
             ('vv', 'var v , w')]
    for (ni, i), (nc, c), (nn, n) in itertools.product(
            inits, [('0', ''), ('c', '$c')], [('0', ''), ('n', '$n')]):
        fs.append(F('for-%s%s%s' % (ni, nc, nn),
                    'for ( %s ; %s ; %s ) $s' % (i, c, n),
                    i=E(COMMA, 'a', noin=True), j=E(ASSIGN, 'a', noin=True),
                    c=E(COMMA, 'b'), n=E(COMMA, 'c'), s=S()))
    fs.append(F('forin', 'for ( $t in $e ) $s', t=E(LHS, 'a', noin=True),
                e=E(COMMA, 'b'), s=S()))
    fs.append(F('forin-var', 'for ( var v in $e ) $s', e=E(COMMA, 'b'),
                s=S()))
    fs.append(F('forin-var-init', 'for ( var v = $i in $e ) $s',
                i=E(ASSIGN, 'a', noin=True), e=E(COMMA, 'b'), s=S()))
    fs.append(F('continue', 'continue ;;'))
    fs.append(F('continue-l', 'continue l ;;'))
    fs.append(F('break', 'break ;;'))
    fs.append(F('break-l', 'break l ;;'))
    fs.append(F('return', 'return ;;'))
    fs.append(F('return-e', 'return $e ;;', e=E(COMMA, 'a')))
    fs.append(F('with', 'with ( $e ) $s', e=E(COMMA, 'a'), s=S()))
    fs.append(F('switch-empty', 'switch ( $e ) { }', e=E(COMMA, 'a')))
    fs.append(F('switch-case0', 'switch ( $e ) { case $c : }',
                e=E(COMMA, 'a'), c=E(COMMA, 'b')))
    fs.append(F('switch-case', 'switch ( $e ) { case $c : $s }',
                e=E(COMMA, 'a'), c=E(COMMA, 'b'), s=S()))
    fs.append(F('switch-default0', 'switch ( $e ) { default : }',
                e=E(COMMA, 'a')))
    fs.append(F('switch-default', 'switch ( $e ) { default : $s }',
                e=E(COMMA, 'a'), s=S()))
    fs.append(F('switch-case-default',
                'switch ( $e ) { case $c : $s default : $t }',
                e=E(COMMA, 'a'), c=E(COMMA, 'b'), s=S(), t=S(('y', SEMI))))
    fs.append(F('switch-default-case',
                'switch ( $e ) { default : $s case $c : $t }',
                e=E(COMMA, 'a'), c=E(COMMA, 'b'), s=S(), t=S(('y', SEMI))))
    fs.append(F('switch-fall', 'switch ( $e ) { case $c : case $d : $s $t }',
                e=E(COMMA, 'a'), c=E(COMMA, 'b'), d=E(COMMA, 'c'), s=S(),
                t=S(('y', SEMI))))
    fs.append(F('label', 'l : $s', s=S()))
    fs.append(F('throw', 'throw $e ;;', e=E(COMMA, 'a')))
    fs.append(F('try-catch', 'try { $s } catch ( e ) { $t }', s=S(),
                t=S(('y', SEMI))))
    fs.append(F('try-finally', 'try { $s } finally { $t }', s=S(),
                t=S(('y', SEMI))))
    fs.append(F('try-all', 'try { $s } catch ( e ) { $t } finally { $u }',
                s=S(), t=S(('y', SEMI)), u=S(('z', SEMI))))
    fs.append(F('try-empty', 'try { } catch ( e ) { } finally { }'))
    fs.append(F('debugger', 'debugger ;;'))
    fs.append(F('fdecl-empty', 'function f ( ) { }'))
    fs.append(F('fdecl', 'function f ( ) { $s }', s=S()))
    fs.append(F('fdecl-2', 'function f ( p , q ) { $s $t }', s=S(),
                t=S(('y', SEMI))))
    return fs


EXPR_FORMS = expression_forms()
STMT_FORMS = statement_forms()
EXPR_BY_NAME = dict((f.name, f) for f in EXPR_FORMS)
STMT_BY_NAME = dict((f.name, f) for f in STMT_FORMS)


# ------------------------------------------------------------------ building
class Built(object):
    __slots__ = ('lex', 'level', 'desc')

    def __init__(self, lex, level, desc):
        self.lex = lex
        self.level = level
        self.desc = desc


def has_bare_in(lex):
    depth = 0
    for l in lex:
        if l in ('(', '[', '{'):
            depth += 1
        elif l in (')', ']', '}'):
            depth -= 1
        elif l == 'in' and depth == 0:
            return True
    return False


def fit(child, slot):
    """lexemes of an expression child placed into a slot (parenthesised when
    the grammar requires it)"""
    lex = child.lex
    need = child.level < slot.level
    if slot.newcallee and child.level == NEWNOARGS:
        need = False
    if not need and slot.noin and has_bare_in(lex):
        need = True
    if not need and slot.stmt_start and lex[0] in ('{', 'function'):
        need = True
    if need:
        return ('(',) + tuple(lex) + (')',)
    return tuple(lex)


def build(form, fill):
    """fill: dict slot_index -> Built (child); others take fillers."""
    out = []
    for i, t in enumerate(form.template):
        if isinstance(t, Slot):
            c = fill.get(i)
            if t.kind == 'E':
                if c is None:
                    c = Built((t.filler,), PRIMARY, 'filler')
                out.extend(fit(c, t))
            else:
                if c is None:
                    out.extend(t.filler)
                else:
                    out.extend(c.lex)
        else:
            out.append(t)
    return tuple(out)


def as_statement(b):
    """wrap an expression Built into an expression statement"""
    f = STMT_BY_NAME['expr']
    return Built(build(f, {f.slots[0]: b}), None, 'expr<' + b.desc + '>')


CORE_FORMS = frozenset([
    'lit-regex', 'lit-string', 'lit-number', 'group', 'arr-1-e1-1', 'obj-1',
    'obj-get', 'obj-set', 'fexpr-named', 'dot', 'bracket', 'new-1', 'new',
    'call-1', 'post-inc', 'unary-', 'unarytypeof', 'unary++', 'bin+', 'bin/',
    'binin', 'bin<', 'cond', 'assign=', 'comma',
    'block-1', 'var-init', 'empty', 'if', 'if-else', 'do', 'while',
    'for-ecn', 'for-vi00', 'forin-var', 'return-e', 'return', 'break',
    'switch-case-default', 'label', 'throw', 'try-all', 'fdecl', 'with',
    'continue-l', 'debugger'])


def chains(depth, kind, inner=None, _root=True):
    """
    All single-path chains of `depth` constructors whose root has `kind`
    ('E' or 'S').  Yields Built.  depth 1 = a form with fillers.
    `inner`: optional set of form names allowed below the root (a stated
    sub-space for the expensive oracles).
    """
    forms = EXPR_FORMS if kind == 'E' else STMT_FORMS
    for f in forms:
        if not _root and inner is not None and f.name not in inner:
            continue
        if depth == 1:
            yield Built(build(f, {}), f.level, f.name)
            continue
        for si in f.slots:
            slot = f.template[si]
            for child in chains(depth - 1, slot.kind, inner, False):
                yield Built(build(f, {si: child}), f.level,
                            '%s[%d<-%s]' % (f.name, si, child.desc))
            if slot.kind == 'S':
                # an expression form in a statement slot (as an expression
                # statement) also counts as one constructor
                for child in chains(depth - 1, 'E', inner, False):
                    if child.desc.startswith('lit-ident') and depth == 2:
                        continue
                    st = as_statement(child)
                    yield Built(build(f, {si: st}), f.level,
                                '%s[%d<-%s]' % (f.name, si, st.desc))


def chain_programs(depth, inner=None):
    """de-duplicated lexeme tuples of all chains of exactly `depth`"""
    seen = set()
    out = []
    for kind in ('S', 'E'):
        for b in chains(depth, kind, inner):
            lex = b.lex if kind == 'S' else as_statement(b).lex
            if lex not in seen:
                seen.add(lex)
                out.append(lex)
    return out


_cache = {}


def programs_with_desc(k):
    """
    S2(k): k=1: every form alone; k=2: + every chain of 2 and every pair of
    top-level statements; k=3: + every chain of 3 (single path).
    Returns a list of (lexemes, description), de-duplicated on lexemes.
    """
    if k in _cache:
        return _cache[k]
    seen = {}

    def add(lex, desc):
        if lex not in seen:
            seen[lex] = desc
    for d in range(1, k + 1):
        for b in chains(d, 'S'):
            add(b.lex, b.desc)
        for b in chains(d, 'E'):
            st = as_statement(b)
            add(st.lex, st.desc)
    if k >= 2:
        tops = [b for b in chains(1, 'S')] + [
            as_statement(b) for b in chains(1, 'E')]
        for x in tops:
            for y in tops:
                add(x.lex + y.lex, x.desc + ' ++ ' + y.desc)
    out = sorted(seen.items(), key=lambda kv: (len(kv[0]), kv[0]))
    _cache[k] = out
    return out


def programs(k):
    return [lex for lex, d in programs_with_desc(k)]


def render(lex, sep=' '):
    return sep.join(lex)


def render_gaps(lex, gaps):
    """gaps[i] is placed before lexeme i (gaps[0] leads), gaps[n] trails."""
    out = []
    for i, l in enumerate(lex):
        out.append(gaps[i])
        out.append(l)
    out.append(gaps[len(lex)])
    return ''.join(out)


def mutants(base, alphabet):
    """E3: every single-lexeme deletion, insertion and replacement."""
    seen = set()
    alpha = ['\n' if a == '\u23ce' else a for a in alphabet]
    for lex in base:
        n = len(lex)
        for i in range(n):
            m = lex[:i] + lex[i + 1:]
            if m not in seen:
                seen.add(m)
                yield m
        for i in range(n + 1):
            for a in alpha:
                m = lex[:i] + (a,) + lex[i:]
                if m not in seen:
                    seen.add(m)
                    yield m
        for i in range(n):
            for a in alpha:
                if a == lex[i]:
                    continue
                m = lex[:i] + (a,) + lex[i + 1:]
                if m not in seen:
                    seen.add(m)
                    yield m


def form_coverage(descs):
    import collections
    import re
    c = collections.Counter()
    for d in descs:
        for name in re.findall(r'[A-Za-z][^\[\]<>+ ]*', d):
            c[name] += 1
    return c
