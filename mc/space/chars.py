# -*- coding: utf-8 -*-
"""
Sigma_char: one representative per cell of the partition of Unicode induced
by the lexer's regular expressions, and the bounded string spaces over it.
"""
from __future__ import unicode_literals

import itertools

PUNCT = list('{}()[].;,<>=!+-*%&|^~?:/')
SIGMA = PUNCT + list('axeu') + list('018') + list('$_') + ["'", '"', '\\'] + [
    ' ', '\t', '\xa0', '\n', '\r', '\u2028',
    '\xe9',        # non-ASCII letter
    '\u0301',      # combining mark
    '\u20ac',      # other BMP character (Sc)
    '\x00',        # NUL
    '\U0001f600',  # astral, not a letter
    '\ud800',      # lone surrogate
    '#',
]
CORE16 = list('a1e.+-/*=<\'"\\') + [' ', '\n', '\r']
CORE8 = list('a1./*\'\\') + ['\n']
CORRUPT = list('a1.+/*=\'"\\(){};') + ['\n', ' ', '#', '\u2028', '\x00']

NAMES = {' ': 'SP', '\t': 'TAB', '\xa0': 'NBSP', '\n': 'LF', '\r': 'CR',
         '\u2028': 'LS', '\u2029': 'PS', '\xe9': 'LETTER', '\u0301': 'MARK',
         '\u20ac': 'OTHER', '\x00': 'NUL', '\U0001f600': 'ASTRAL',
         '\ud800': 'SURROGATE', "'": 'SQ', '"': 'DQ', '\\': 'BS'}


def cname(ch):
    if ch in NAMES:
        return NAMES[ch]
    if ch.isalpha():
        return 'LETTER' if ord(ch) > 127 else ch
    return ch


def abstract(s):
    return ' '.join(cname(c) for c in s)


def strings(alphabet, maxlen):
    for n in range(1, maxlen + 1):
        for t in itertools.product(alphabet, repeat=n):
            yield ''.join(t)


def spaces(tier):
    """[(name, alphabet, maxlen)]"""
    if tier == 'quick':
        return [('all-49', SIGMA, 3), ('core-16', CORE16, 4),
                ('core-8', CORE8, 5)]
    return [('all-49', SIGMA, 4), ('core-16', CORE16, 5),
            ('core-8', CORE8, 7)]


def all_strings(tier):
    seen = set()
    out = []
    for name, alpha, n in spaces(tier):
        for s in strings(alpha, n):
            if s not in seen:
                seen.add(s)
                out.append(s)
    return out


# multi-character lexemes for lexeme-sequence spaces (C06)
LEXEMES = [
    'a', 'if', 'ifx', 'in', 'inx', 'get', 'this', '1', '1.5', '.5', '1e3',
    '0x1f', "'s'", '"s"', "'a\\\nb'", "'a\\\r\nb'", "'a\\\u2028b'", '/r/g',
    '/*c*/', '/*\n*/', '/*\r\n\r*/', '//c', '//c\n', '\n', '\r\n', '\r',
    '\u2028', '\u2029', ' ', '\t', '\xa0', '\ufeff', '\u3000',
    '{', '}', '(', ')', '[', ']', ';', ',', '.', '<', '>', '<=', '>=', '==',
    '!=', '===', '!==', '+', '-', '*', '%', '++', '--', '<<', '>>', '>>>',
    '&', '|', '^', '!', '~', '&&', '||', '?', ':', '=', '+=', '-=', '*=',
    '%=', '<<=', '>>=', '>>>=', '&=', '|=', '^=', '/', '/=',
]
