# -*- coding: utf-8 -*-
"""
Sigma_char: one representative per cell of the partition of Unicode induced
by the lexer's regular expressions, and the bounded string spaces over it.
"""
from __future__ import unicode_literals

import itertools

PUNCT = list('{}()[].;,<>=!+-*%&|^~?:/')
SIGMA = PUNCT + list('axeu') + list('018') + list('$_') + ["'", '"', '\\'] + [
    ' ', '\t', '\xa0', '\n', '\r', '\u2028',
    '\xe9',        # non-ASCII letter
    '\u0301',      # combining mark
    '\u20ac',      # other BMP character (Sc)
    '\x00',        # NUL
    '\U0001f600',  # astral, not a letter
    '\ud800',      # lone surrogate
    '#',
    # characters Python (str.splitlines, \s) treats as line boundaries or
    # white space although ES5 does not, or only as white space
    '\x0b', '\x0c', '\x1c', '\x85',
]
CORE16 = list('a1e.+-/*=<\'"\\') + [' ', '\n', '\r']
CORE8 = list('a1./*\'\\') + ['\n']
CORRUPT = list('a1.+/*=\'"\\(){};') + ['\n', ' ', '#', '\u2028', '\x00']

NAMES = {'\x0b': 'VT', '\x0c': 'FF', '\x1c': 'FS', '\x85': 'NEL', ' ': 'SP', '\t': 'TAB', '\xa0': 'NBSP', '\n': 'LF', '\r': 'CR',
         '\u2028': 'LS', '\u2029': 'PS', '\xe9': 'LETTER', '\u0301': 'MARK',
         '\u20ac': 'OTHER', '\x00': 'NUL', '\U0001f600': 'ASTRAL',
         '\ud800': 'SURROGATE', "'": 'SQ', '"': 'DQ', '\\': 'BS'}


def cname(ch):
    if ch in NAMES:
        return NAMES[ch]
    if ch.isalpha():
        return 'LETTER' if ord(ch) > 127 else ch
    return ch


def abstract(s):
    return ' '.join(cname(c) for c in s)


def strings(alphabet, maxlen):
    for n in range(1, maxlen + 1):
        for t in itertools.product(alphabet, repeat=n):
            yield ''.join(t)


MID24 = list('a1e.+-/*=<>!&|(){};,\'"\\') + [' ', '\n']


def spaces(tier, purpose='lex'):
    """[(name, alphabet, maxlen)]; `purpose` 'parse' keeps the spaces that
    are run through the (four times dearer) parser smaller"""
    if tier == 'quick':
        if purpose == 'parse':
            return [('all', SIGMA, 2), ('mid-24', MID24, 3),
                    ('core-16', CORE16, 4), ('core-8', CORE8, 5)]
        return [('all', SIGMA, 3), ('core-16', CORE16, 4),
                ('core-8', CORE8, 5)]
    if purpose == 'parse':
        return [('all', SIGMA, 3), ('mid-24', MID24, 4),
                ('core-16', CORE16, 5), ('core-8', CORE8, 6)]
    return [('all', SIGMA, 4), ('core-16', CORE16, 5), ('core-8', CORE8, 7)]


def owner(s, sp):
    """index of the first space containing s (spaces overlap; every string
    is enumerated by exactly one of them)"""
    for j, (name, alpha, n) in enumerate(sp):
        if len(s) <= n and all(c in alpha for c in s):
            return j
    return None


def string_tasks(tier, purpose='lex'):
    """
    Work units for a memory-bounded exhaustive enumeration: (space index,
    prefix).  Expanding every task with `strings_of_task` yields every string
    of the union of the spaces exactly once.
    """
    sp = spaces(tier, purpose)
    tasks = []
    for j, (name, alpha, n) in enumerate(sp):
        plen = 1 if n <= 3 else 2
        for k in range(1, plen):
            for t in itertools.product(alpha, repeat=k):
                tasks.append((j, ''.join(t), True))     # the short strings
        for t in itertools.product(alpha, repeat=plen):
            tasks.append((j, ''.join(t), False))
    return sp, tasks


def strings_of_task(sp, task):
    j, prefix, exact = task
    name, alpha, n = sp[j]
    if exact:
        if owner(prefix, sp) == j:
            yield prefix
        return
    for k in range(0, n - len(prefix) + 1):
        for t in itertools.product(alpha, repeat=k):
            s = prefix + ''.join(t)
            if owner(s, sp) == j:
                yield s


def all_strings(tier, purpose='lex'):
    sp, tasks = string_tasks(tier, purpose)
    out = []
    for t in tasks:
        out.extend(strings_of_task(sp, t))
    return out


# multi-character lexemes for lexeme-sequence spaces (C06)
LEXEMES = [
    'a', 'if', 'ifx', 'in', 'inx', 'get', 'this', '1', '1.5', '.5', '1e3',
    '0x1f', "'s'", '"s"', "'a\\\nb'", "'a\\\r\nb'", "'a\\\u2028b'", '/r/g',
    '/*c*/', '/*\n*/', '/*\r\n\r*/', '//c', '//c\n', '\n', '\r\n', '\r',
    '/*\x0c*/', '/*\x85\x1c*/', '/*\u2028*/', "'a\\\u2029b'", "'a\x0bb'",
    '//c\x0c\n', '\x0c', '\x0b', '\x85',
    '\u2028', '\u2029', ' ', '\t', '\xa0', '\ufeff', '\u3000',
    '{', '}', '(', ')', '[', ']', ';', ',', '.', '<', '>', '<=', '>=', '==',
    '!=', '===', '!==', '+', '-', '*', '%', '++', '--', '<<', '>>', '>>>',
    '&', '|', '^', '!', '~', '&&', '||', '?', ':', '=', '+=', '-=', '*=',
    '%=', '<<=', '>>=', '>>>=', '&=', '|=', '^=', '/', '/=',
    # a supplementary-plane character inside a token (two UTF-16 code units,
    # one character): what follows on the line is one column further on
    "'\U0001f600'", '/*\U0001f600*/', '/\U0001f600/',
]


def case_related_characters():
    """
    {character: [ascii strings]} for every non-ASCII letter that Unicode case
    mapping / case folding / compatibility normalisation relates to a string
    of ASCII letters (dotless i, long s, ligatures, modifier and mathematical
    letters, full-width forms ...): the cell of the character partition that
    matters for "an identifier is a keyword only on exact match".
    """
    import unicodedata
    rel = {}
    for cp in range(0x80, 0x110000):
        if 0xD800 <= cp <= 0xDFFF:
            continue
        c = chr(cp)
        if unicodedata.category(c) not in ('Lu', 'Ll', 'Lt', 'Lm', 'Lo',
                                           'Nl'):
            continue
        forms = set()
        for f in (c.upper(), c.lower(), c.casefold(),
                  unicodedata.normalize('NFKC', c),
                  unicodedata.normalize('NFKD', c)):
            if f and all(ord(x) < 128 for x in f) and f.isalpha():
                forms.add(f.lower())
        if forms:
            rel[c] = sorted(forms)
    return rel


def confusable_words(words):
    """every word obtained from a reserved word by replacing one occurrence
    of an ASCII letter string by a character related to it (never equal to
    the reserved word itself)"""
    rel = case_related_characters()
    out = set()
    for w in sorted(words):
        for c in sorted(rel):
            for f in rel[c]:
                start = 0
                while True:
                    i = w.find(f, start)
                    if i < 0:
                        break
                    out.add(w[:i] + c + w[i + len(f):])
                    start = i + 1
        # plain case variants
        out.add(w.upper())
        out.add(w.capitalize())
        out.add(w + 'x')
        out.add('x' + w)
    return sorted(out - set(words))
